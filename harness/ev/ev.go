// Package ev is the shared runner of the verification harness: it drives a
// (gen, decide) pair with rapid, records what was generated (for the evidence
// file), consults the committed known-findings list, and writes a
// self-contained replay file for the shrunk failing case.
package ev

import (
	"crypto/sha1"
	"encoding/hex"
	"encoding/json"
	"fmt"
	"os"
	"path/filepath"
	"runtime/debug"
	"sort"
	"strconv"
	"strings"
	"sync"
	"testing"
	"time"

	"pgregory.net/rapid"
)

// Verdict is what a property's decide function returns for one case.
type Verdict struct {
	OK         bool           // property held on this case
	Signature  string         // root-cause signature when !OK (matched against known findings)
	Detail     string         // expected vs observed, human readable
	NonTrivial bool           // the case is non-trivial by the property's stated rule
	Labels     []string       // classification labels (distribution goes to the evidence)
	Discard    bool           // generator self-check failed: case is not counted and not judged
	Obs        map[string]int // extra observation counters (not verdicts)
}

// Violation builds a failing verdict.
func Violation(sig, format string, args ...any) Verdict {
	return Verdict{OK: false, Signature: sig, Detail: fmt.Sprintf(format, args...)}
}

type shardRecord struct {
	Property   string         `json:"property"`
	Shard      string         `json:"shard"`
	Evals      int            `json:"evaluations"`
	NTHashes   []string       `json:"nontrivial_hashes"`
	Labels     map[string]int `json:"labels"`
	Obs        map[string]int `json:"observations"`
	Discards   int            `json:"generator_discards"`
	Known      map[string]int `json:"known_findings_hit"`
	Samples    []any          `json:"samples"`
	Violations []string       `json:"violations"`
}

type recorder struct {
	mu      sync.Mutex
	rec     shardRecord
	nt      map[string]bool
	maxSamp int
}

var (
	recMu sync.Mutex
	recs  = map[string]*recorder{}
)

func getRecorder(id string) *recorder {
	recMu.Lock()
	defer recMu.Unlock()
	r, ok := recs[id]
	if !ok {
		r = &recorder{nt: map[string]bool{}, maxSamp: 3}
		r.rec.Property = id
		r.rec.Shard = os.Getenv("VERIF_SHARD")
		r.rec.Labels = map[string]int{}
		r.rec.Obs = map[string]int{}
		r.rec.Known = map[string]int{}
		recs[id] = r
	}
	return r
}

// Hash returns a short content hash of any JSON-serialisable value.
func Hash(v any) string {
	b, err := json.Marshal(v)
	if err != nil {
		b = []byte(fmt.Sprintf("%#v", v))
	}
	s := sha1.Sum(b)
	return hex.EncodeToString(s[:8])
}

func (r *recorder) record(c any, v Verdict) {
	r.mu.Lock()
	defer r.mu.Unlock()
	if v.Discard {
		r.rec.Discards++
		for k, n := range v.Obs {
			r.rec.Obs[k] += n
		}
		return
	}
	r.rec.Evals++
	for _, l := range v.Labels {
		r.rec.Labels[l]++
	}
	for k, n := range v.Obs {
		r.rec.Obs[k] += n
	}
	if v.NonTrivial {
		h := Hash(c)
		if !r.nt[h] {
			r.nt[h] = true
			if len(r.rec.Samples) < r.maxSamp {
				r.rec.Samples = append(r.rec.Samples, truncateSample(c))
			}
		}
	}
}

func truncateSample(c any) any {
	b, err := json.Marshal(c)
	if err != nil {
		return fmt.Sprintf("%v", c)
	}
	if len(b) > 6000 {
		return map[string]any{"truncated_json": string(b[:6000]) + "…"}
	}
	var out any
	_ = json.Unmarshal(b, &out)
	return out
}

func (r *recorder) flush() {
	r.mu.Lock()
	defer r.mu.Unlock()
	dir := os.Getenv("VERIF_RUN_DIR")
	if dir == "" {
		return
	}
	r.rec.NTHashes = r.rec.NTHashes[:0]
	for h := range r.nt {
		r.rec.NTHashes = append(r.rec.NTHashes, h)
	}
	sort.Strings(r.rec.NTHashes)
	b, _ := json.Marshal(r.rec)
	name := fmt.Sprintf("%s.%s.%d.json", r.rec.Property, r.rec.Shard, os.Getpid())
	_ = os.MkdirAll(dir, 0o755)
	_ = os.WriteFile(filepath.Join(dir, name), b, 0o644)
}

// ---------------------------------------------------------------- known findings

type finding struct {
	Property  string `json:"property"`
	Signature string `json:"signature"`
	What      string `json:"what"`
}

type findingsFile struct {
	Open  []finding       `json:"open"`
	Fixed json.RawMessage `json:"fixed"`
}

var (
	kfOnce sync.Once
	kfOpen map[string]bool
)

func knownOpen(id, sig string) bool {
	kfOnce.Do(func() {
		kfOpen = map[string]bool{}
		p := os.Getenv("VERIF_KNOWN_FINDINGS")
		if p == "" {
			return
		}
		b, err := os.ReadFile(p)
		if err != nil {
			return
		}
		var f findingsFile
		if json.Unmarshal(b, &f) != nil {
			return
		}
		for _, o := range f.Open {
			kfOpen[o.Property+"\x00"+o.Signature] = true
		}
	})
	return kfOpen[id+"\x00"+sig]
}

// ---------------------------------------------------------------- replay files

// Replay is the on-disk form of a failing case.
type Replay struct {
	Property  string          `json:"property"`
	Test      string          `json:"test"`
	Signature string          `json:"signature"`
	Detail    string          `json:"detail"`
	Case      json.RawMessage `json:"case"`
}

func replayDir() string {
	d := os.Getenv("VERIF_REPLAY_DIR")
	if d == "" {
		d = os.TempDir()
	}
	return d
}

func writeReplay(id, test string, c any, v Verdict) string {
	cb, _ := json.MarshalIndent(c, "", " ")
	r := Replay{Property: id, Test: test, Signature: v.Signature, Detail: v.Detail, Case: cb}
	b, _ := json.MarshalIndent(r, "", " ")
	dir := filepath.Join(replayDir(), id)
	_ = os.MkdirAll(dir, 0o755)
	p := filepath.Join(dir, Hash(c)+".json")
	_ = os.WriteFile(p, b, 0o644)
	return p
}

// ---------------------------------------------------------------- runner

// Checks returns the number of rapid cases requested through VERIF_SCALE
// (a multiplier applied to the property's base count), at least 1.
func Scale(base int) int {
	s := os.Getenv("VERIF_SCALE")
	if s == "" {
		return base
	}
	f, err := strconv.ParseFloat(s, 64)
	if err != nil || f <= 0 {
		return base
	}
	n := int(float64(base) * f)
	if n < 1 {
		n = 1
	}
	return n
}

// Tier reports the tier the driver asked for.
func Tier() string {
	if os.Getenv("VERIF_TIER") == "thorough" {
		return "thorough"
	}
	return "quick"
}

// Thorough is true in the thorough tier.
func Thorough() bool { return Tier() == "thorough" }

// Run drives gen/decide. In replay mode (VERIF_REPLAY=<file>) it bypasses rapid
// and re-decides the saved case.
func Run[C any](t *testing.T, id string, gen func(*rapid.T) C, decide func(C) Verdict) {
	test := t.Name()
	if p := os.Getenv("VERIF_REPLAY"); p != "" {
		replayOne(t, id, test, p, decide)
		return
	}
	rec := getRecorder(id)
	var last struct {
		set bool
		c   C
		v   Verdict
	}
	t.Cleanup(func() {
		if t.Failed() && last.set {
			p := writeReplay(id, test, last.c, last.v)
			rec.mu.Lock()
			rec.rec.Violations = append(rec.rec.Violations, p)
			rec.mu.Unlock()
			fmt.Printf("VIOLATION property=%s replay=%s\n", id, p)
			fmt.Printf("  signature: %s\n  detail: %s\n", last.v.Signature, firstLines(last.v.Detail, 40))
		}
		rec.flush()
	})
	rapid.Check(t, func(rt *rapid.T) {
		c := gen(rt)
		persistCurrent(id, test, c)
		stop := watchdog(id, test, c)
		v := safeDecide(decide, c)
		stop()
		rec.record(c, v)
		if v.Discard || v.OK {
			return
		}
		if knownOpen(id, v.Signature) {
			rec.mu.Lock()
			rec.rec.Known[v.Signature]++
			rec.mu.Unlock()
			return
		}
		last.set, last.c, last.v = true, c, v
		rt.Fatalf("property %s violated [%s]: %s", id, v.Signature, firstLines(v.Detail, 25))
	})
}

// persistCurrent writes the case about to be decided to <run dir>/current-<shard>.json (VERIF_PERSIST_CASE=1). A
// case that takes the whole process down - a fatal runtime error such as a stack overflow cannot be recovered -
// leaves that file behind, and the driver turns it into the replay file of the violation.
func persistCurrent(id, test string, c any) {
	if os.Getenv("VERIF_PERSIST_CASE") == "" {
		return
	}
	dir := os.Getenv("VERIF_RUN_DIR")
	if dir == "" {
		return
	}
	cb, err := json.Marshal(c)
	if err != nil {
		return
	}
	r := Replay{Property: id, Test: test, Signature: "process-died", Detail: "the process ended while this case was being decided", Case: cb}
	b, _ := json.Marshal(r)
	_ = os.WriteFile(filepath.Join(dir, "current-"+os.Getenv("VERIF_SHARD")+".json"), b, 0o644)
}

// RunFixed runs decide over an explicit list of cases (exhaustive families,
// regression cases). Every failing case not covered by a known finding is
// reported; the first one becomes the replay file.
func RunFixed[C any](t *testing.T, id string, cases []C, decide func(C) Verdict) {
	test := t.Name()
	if p := os.Getenv("VERIF_REPLAY"); p != "" {
		replayOne(t, id, test, p, decide)
		return
	}
	rec := getRecorder(id)
	defer rec.flush()
	reported := 0
	for _, c := range cases {
		v := safeDecide(decide, c)
		rec.record(c, v)
		if v.Discard || v.OK {
			continue
		}
		if knownOpen(id, v.Signature) {
			rec.mu.Lock()
			rec.rec.Known[v.Signature]++
			rec.mu.Unlock()
			continue
		}
		if reported == 0 {
			p := writeReplay(id, test, c, v)
			rec.mu.Lock()
			rec.rec.Violations = append(rec.rec.Violations, p)
			rec.mu.Unlock()
			fmt.Printf("VIOLATION property=%s replay=%s\n", id, p)
			fmt.Printf("  signature: %s\n  detail: %s\n", v.Signature, firstLines(v.Detail, 40))
		}
		reported++
		t.Errorf("property %s violated [%s]: %s", id, v.Signature, firstLines(v.Detail, 12))
		if reported >= 5 {
			t.Fatalf("stopping after %d violations", reported)
		}
	}
}

// Abort records a violation that cannot be reported through the normal path because the code under test is still
// running (a call that does not return cannot be cancelled, and shrinking would start it again and again):
// the case is saved as it is, the VIOLATION line is printed and the process ends with status 1.
func Abort(id, test string, c any, v Verdict) {
	p := writeReplay(id, test, c, v)
	fmt.Printf("VIOLATION property=%s replay=%s\n", id, p)
	fmt.Printf("  signature: %s\n  detail: %s\n", v.Signature, firstLines(v.Detail, 40))
	os.Exit(1)
}

// Inconclusive ends the process with the status the driver maps to "inconclusive".
func Inconclusive(id, format string, args ...any) {
	fmt.Printf("INCONCLUSIVE %s: %s\n", id, fmt.Sprintf(format, args...))
	os.Exit(3)
}

// watchdog saves the case and ends the process as INCONCLUSIVE when one case does not return within
// VERIF_CASE_WATCHDOG seconds (default 600): a time budget hit is never a violation, but the culprit input is kept.
func watchdog(id, test string, c any) (stop func()) {
	secs := 600
	if s := os.Getenv("VERIF_CASE_WATCHDOG"); s != "" {
		if n, err := strconv.Atoi(s); err == nil && n > 0 {
			secs = n
		}
	}
	done := make(chan struct{})
	go func() {
		select {
		case <-done:
		case <-time.After(time.Duration(secs) * time.Second):
			p := writeReplay(id, test, c, Verdict{Signature: "watchdog-no-return", Detail: fmt.Sprintf("case did not return within %d s", secs)})
			np := strings.TrimSuffix(p, ".json") + ".suspect"
			_ = os.Rename(p, np)
			fmt.Printf("INCONCLUSIVE %s: one case did not return within %d s (possible non-termination or blow-up); case saved at %s\n", id, secs, np)
			os.Exit(3)
		}
	}()
	return func() { close(done) }
}

func safeDecide[C any](decide func(C) Verdict, c C) (v Verdict) {
	defer func() {
		if r := recover(); r != nil {
			// a panic inside decide is a defect of the harness (calls into the code
			// under test are individually guarded): inconclusive, never a violation
			fmt.Printf("INCONCLUSIVE harness panic in decide: %v\n%s\n", r, debug.Stack())
			v = Verdict{Discard: true, Obs: map[string]int{"harness_panics": 1}}
			Note("", "", 0)
			harnessPanics++
		}
	}()
	return decide(c)
}

func replayOne[C any](t *testing.T, id, test, path string, decide func(C) Verdict) {
	b, err := os.ReadFile(path)
	if err != nil {
		t.Skipf("cannot read replay file: %v", err)
	}
	var r Replay
	if err := json.Unmarshal(b, &r); err != nil {
		t.Skipf("bad replay file: %v", err)
	}
	if r.Property != id || (r.Test != "" && r.Test != test) {
		t.Skip("replay file is for another test")
	}
	var c C
	if err := json.Unmarshal(r.Case, &c); err != nil {
		t.Fatalf("bad case in replay file: %v", err)
	}
	v := safeDecide(decide, c)
	fmt.Printf("REPLAY property=%s test=%s ok=%v signature=%s\n%s\n", id, test, v.OK, v.Signature, v.Detail)
	if !v.OK && !v.Discard && knownOpen(id, v.Signature) {
		fmt.Printf("KNOWN-FINDING (open) reproduced by the replay: %s\n", v.Signature)
		return
	}
	if !v.OK && !v.Discard {
		fmt.Printf("VIOLATION property=%s replay=%s\n", id, path)
		t.Fatalf("replayed case still violates %s", id)
	}
}

func firstLines(s string, n int) string {
	lines := strings.Split(s, "\n")
	if len(lines) > n {
		lines = append(lines[:n], "…")
	}
	out := strings.Join(lines, "\n")
	if len(out) > 4000 {
		out = out[:4000] + "…"
	}
	return out
}

var harnessPanics int

// HarnessPanics reports how many times decide panicked in this process.
func HarnessPanics() int { return harnessPanics }

// Note records an observation counter outside a case (e.g. in TestMain-like setup).
func Note(id, key string, n int) {
	if id == "" {
		return
	}
	r := getRecorder(id)
	r.mu.Lock()
	r.rec.Obs[key] += n
	r.mu.Unlock()
}

// Flush writes the recorder of id (for tests that do not go through Run).
func Flush(id string) { getRecorder(id).flush() }
