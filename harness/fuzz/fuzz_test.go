//go:build verif

// Package fuzz holds the native go-fuzz targets of the thorough tier. The
// semantic oracle sits inside each target; the package counter of the code
// under test is reset at the top of every iteration through the verif hook.
package fuzz

import (
	"bytes"
	"encoding/json"
	"fmt"
	"os"
	"path/filepath"
	"strings"
	"sync"
	"testing"

	"github.com/aml-org/amf-custom-validator/pkg"
	"github.com/aml-org/amf-custom-validator/pkg/verifhook"
	"github.com/open-policy-agent/opa/rego"
	"github.com/piprate/json-gold/ld"
	m "verifharness/model"
)

type outcome struct {
	report string
	err    error
	panic  string
}

func guard(f func() (string, error)) (o outcome) {
	defer func() {
		if r := recover(); r != nil {
			o.panic = fmt.Sprint(r)
		}
	}()
	o.report, o.err = f()
	return
}

var hostileProfiles = []string{"", " ", "---\n", "- a\n", "5", "profile: x", "profile: x\nvalidations: {}\n", "profile: x\nvalidations:\n  v: {}\nviolation: [v]\n",
	"profile: x\nvalidations:\n  v:\n    targetClass: zz.T\n    propertyConstraints: {}\nviolation: [v]\n",
	"profile: x\nprefixes: {ex: 'http://e/'}\nvalidations:\n  v:\n    targetClass: ex.T\n    propertyConstraints:\n      '((': {minCount: 1}\nviolation: [v]\n",
	"profile: x\nprefixes: {ex: 'http://e/'}\nvalidations:\n  v:\n    targetClass: ex.T\n    propertyConstraints:\n      ex.a: {nested: {propertyConstraints: {ex.b: {in: [1, a]}}}}\nviolation: [v]\n",
	"profile: x\nprefixes: {ex: 'http://e/'}\nvalidations:\n  v:\n    targetClass: ex.T\n    if: {propertyConstraints: {ex.a: {minCount: 1}}}\n    then: {not: {propertyConstraints: {ex.b: {pattern: x}}}}\nwarning: [v]\n"}

var hostileData = []string{"", "[]", "{}", "null", "5", `{"@id":5}`, `{"@graph":[]}`, `{"@context":{"@vocab":5}}`, `[{"@id":"http://a/b","@type":["http://e/T"],"http://e/a":[{"@id":"http://a/c"}]},{"@id":"http://a/c","http://e/b":[{"@value":1}]}]`,
	`[{"@id":"http://x/sm","@type":"http://a.ml/vocabularies/document-source-maps#SourceMap","http://a.ml/vocabularies/document-source-maps#lexical":[{"@id":"http://x/l"}]},{"@id":"http://x/l","http://a.ml/vocabularies/document-source-maps#element":"http://a/b","http://a.ml/vocabularies/document-source-maps#value":"[(1,2)-(3,4)]"},{"@id":"http://a/b","@type":"http://e/T"}]`}

func fixtures(suffix string, max int) [][]byte {
	root := os.Getenv("VERIF_REPO")
	if root == "" {
		root = "/repo"
	}
	var out [][]byte
	_ = filepath.Walk(filepath.Join(root, "test", "data"), func(p string, info os.FileInfo, err error) error {
		if err != nil || info.IsDir() || info.Size() > 6000 || len(out) >= max {
			return nil
		}
		if strings.HasSuffix(p, suffix) && !strings.Contains(filepath.Base(p), "report") {
			if b, err := os.ReadFile(p); err == nil {
				out = append(out, b)
			}
		}
		return nil
	})
	return out
}

// FuzzValidate: arbitrary bytes as profile and as data never panic and give exactly one of report / error.
func FuzzValidate(f *testing.F) {
	ps := fixtures(".yaml", 25)
	ds := fixtures(".jsonld", 25)
	for i, p := range ps {
		f.Add(p, ds[i%len(ds)])
	}
	for i, p := range hostileProfiles {
		f.Add([]byte(p), []byte(hostileData[i%len(hostileData)]))
	}
	for _, d := range hostileData {
		f.Add([]byte(hostileProfiles[len(hostileProfiles)-2]), []byte(d))
	}
	f.Fuzz(func(t *testing.T, profile, data []byte) {
		verifhook.GenReset()
		if len(profile) > 8000 || len(data) > 8000 {
			t.Skip()
		}
		if bytes.Contains(profile, []byte("rego")) {
			t.Skip() // embedded Rego is a language of its own (and may legitimately be slow); C08 covers it
		}
		o := guard(func() (string, error) { return pkg.Validate(string(profile), string(data), false, nil) })
		if o.panic != "" {
			t.Fatalf("VIOLATION-C17 panic: %s", o.panic)
		}
		if (o.report != "") == (o.err != nil) {
			t.Fatalf("VIOLATION-C17 report(len %d) and err=%v", len(o.report), o.err)
		}
		if o.err == nil {
			var v any
			if err := json.Unmarshal([]byte(o.report), &v); err != nil {
				t.Fatalf("VIOLATION-C17 report is not JSON: %v", err)
			}
		}
	})
}

var (
	qOnce sync.Once
	qs    []*rego.PreparedEvalQuery
)

func compiled() []*rego.PreparedEvalQuery {
	qOnce.Do(func() {
		for _, p := range hostileProfiles[len(hostileProfiles)-2:] {
			q, err := pkg.CompileProfile(p, false, nil)
			if err == nil {
				qs = append(qs, q)
			}
		}
	})
	return qs
}

// FuzzCompiledData: arbitrary data bytes against compiled profiles: no panic; unreadable data (confirmed by
// encoding/json and json-gold) yields an error and no report.
func FuzzCompiledData(f *testing.F) {
	for _, d := range fixtures(".jsonld", 40) {
		f.Add(d)
	}
	for _, d := range hostileData {
		f.Add([]byte(d))
	}
	f.Fuzz(func(t *testing.T, data []byte) {
		if len(data) > 8000 {
			t.Skip()
		}
		unreadable := false
		dec := json.NewDecoder(bytes.NewReader(data))
		dec.UseNumber()
		var v any
		if err := dec.Decode(&v); err != nil {
			unreadable = true
		} else if strings.Contains(string(data), "@context") && strings.Contains(string(data), "\"http") {
			t.Skip() // a remote @context would make json-gold try the network
		} else if ldRejects(v) {
			unreadable = true
		}
		for _, q := range compiled() {
			o := guard(func() (string, error) { return pkg.ValidateCompiled(q, string(data), false, nil) })
			if o.panic != "" {
				t.Fatalf("VIOLATION-C17 panic: %s", o.panic)
			}
			if (o.report != "") == (o.err != nil) {
				t.Fatalf("VIOLATION-C17 report(len %d) and err=%v", len(o.report), o.err)
			}
			if unreadable && o.err == nil {
				t.Fatalf("VIOLATION-C04 unreadable data produced a report: %q", data)
			}
		}
	})
}

// FuzzPath: the path parser agrees with the reference recogniser (accept/reject and structure).
func FuzzPath(f *testing.F) {
	for _, s := range []string{"ex.a", "ex.a / ex.b", "ex.a | ex.b^", "(ex.a / ex.b) | @type", "ex.a / / ex.b", "ex.a ) junk", "ex.a^^", "@type^", "ex.a/ex.b", "( ex.a )", "ex.a |", "ex.a ex.b",
		"apiContract.expects / (apiContract.parameter / shapes.schema) | (apiContract.payload / shapes.schema) / shacl.name", "management.mulesoft.com\\/apiinstance-id", "a-b.c_d", "ex.a\t|\nex.b"} {
		f.Add(s)
	}
	f.Fuzz(func(t *testing.T, s string) {
		if len(s) > 300 {
			t.Skip()
		}
		verdict, want := m.RefParsePath(s)
		if verdict == m.Unspecified {
			t.Skip()
		}
		got, err := verifhook.PathStructure(s)
		if err == nil && verdict == m.Reject {
			t.Fatalf("VIOLATION-C16 %q accepted as %s, not a sentence of the grammar", s, got)
		}
		if err != nil && verdict == m.Accept {
			t.Fatalf("VIOLATION-C16 %q rejected (%v), the grammar accepts it", s, err)
		}
		if err == nil && got != want {
			t.Fatalf("VIOLATION-C16 %q parsed as %s, the grammar assigns %s", s, got, want)
		}
	})
}

// ldRejects: json-gold returns an error (or panics, which some malformed documents make it do) on the document.
func ldRejects(v any) (rejects bool) {
	defer func() {
		if recover() != nil {
			rejects = true
		}
	}()
	_, err := ld.NewJsonLdProcessor().Flatten(v, map[string]any{}, ld.NewJsonLdOptions(""))
	return err != nil
}
