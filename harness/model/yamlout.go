package model

import (
	"fmt"
	"strconv"
	"strings"
	"unicode"
)

// Y is an ordered YAML tree.
type Y struct {
	Kind  string   `json:"kind"` // "map","seq","str","int","float","bool"
	Keys  []string `json:"keys,omitempty"`
	Vals  []*Y     `json:"vals,omitempty"` // map values, parallel to Keys
	Items []*Y     `json:"items,omitempty"`
	S     string   `json:"s,omitempty"`
	I     int64    `json:"i,omitempty"`
	F     float64  `json:"f,omitempty"`
	B     bool     `json:"b,omitempty"`
}

func YMap() *Y            { return &Y{Kind: "map"} }
func YSeq(items ...*Y) *Y { return &Y{Kind: "seq", Items: items} }
func YStr(s string) *Y    { return &Y{Kind: "str", S: s} }
func YInt(i int64) *Y     { return &Y{Kind: "int", I: i} }
func YFloat(f float64) *Y { return &Y{Kind: "float", F: f} }
func YBool(b bool) *Y     { return &Y{Kind: "bool", B: b} }
func (y *Y) Set(k string, v *Y) *Y {
	for i, kk := range y.Keys {
		if kk == k {
			y.Vals[i] = v
			return y
		}
	}
	y.Keys = append(y.Keys, k)
	y.Vals = append(y.Vals, v)
	return y
}
func (y *Y) Get(k string) *Y {
	for i, kk := range y.Keys {
		if kk == k {
			return y.Vals[i]
		}
	}
	return nil
}

// Clone deep-copies the tree.
func (y *Y) Clone() *Y {
	if y == nil {
		return nil
	}
	c := *y
	c.Keys = append([]string(nil), y.Keys...)
	c.Vals = make([]*Y, len(y.Vals))
	for i, v := range y.Vals {
		c.Vals[i] = v.Clone()
	}
	c.Items = make([]*Y, len(y.Items))
	for i, v := range y.Items {
		c.Items[i] = v.Clone()
	}
	if len(c.Vals) == 0 {
		c.Vals = nil
	}
	if len(c.Items) == 0 {
		c.Items = nil
	}
	return &c
}

// YOpts are surface-form choices of the YAML printer.
type YOpts struct {
	Indent    int  `json:"indent,omitempty"`     // spaces per level (default 2)
	Flow      int  `json:"flow,omitempty"`       // 0 never; 1 flow style for scalar-only sequences; 2 also for small scalar-only maps; 3 the whole document on one line
	Quote     int  `json:"quote,omitempty"`      // 0 plain where safe else double; 1 always double; 2 single where possible
	Comments  bool `json:"comments,omitempty"`   // sprinkle comments and blank lines
	SeqIndent bool `json:"seq_indent,omitempty"` // indent "- " under its key
	Header    bool `json:"header,omitempty"`     // emit the "#%Validation Profile 1.0" first line
	Literal   bool `json:"literal,omitempty"`    // print string values of block mappings as literal block scalars (|-) where that denotes the same string
	NumStyle  int  `json:"num_style,omitempty"`  // spelling of numbers: 0 canonical, 1.. alternative YAML spellings of the same number (see SpellInt / SpellFloat)
}

// SpellInt writes an integer in one of the spellings YAML gives it: explicit plus sign, hexadecimal, octal.
// Styles that do not apply to the value fall back to the canonical decimal form.
func SpellInt(i int64, style int) string {
	dec := strconv.FormatInt(i, 10)
	switch style {
	case 1, 4, 7:
		if i >= 0 {
			return "+" + dec
		}
	case 2:
		if i >= 0 {
			return "0x" + strconv.FormatInt(i, 16)
		}
	case 3:
		if i >= 0 {
			return "0o" + strconv.FormatInt(i, 8)
		}
	}
	return dec
}

// SpellFloat writes a decimal number in one of the spellings YAML gives it: explicit plus sign, no digit before or
// after the point, exponent forms, redundant zeros. All denote the same number (the printer's users confirm that
// with yaml.v3).
func SpellFloat(f float64, style int) string {
	s := strconv.FormatFloat(f, 'f', -1, 64)
	if !strings.Contains(s, ".") {
		s += ".0"
	}
	neg := strings.HasPrefix(s, "-")
	abs := strings.TrimPrefix(s, "-")
	sign := ""
	if neg {
		sign = "-"
	}
	switch style {
	case 1:
		if !neg {
			return "+" + abs
		}
	case 2:
		if strings.HasPrefix(abs, "0.") {
			return sign + abs[1:] // .5
		}
	case 3:
		return sign + "0" + abs // 00.5
	case 4:
		return s + "0" // 0.50
	case 5:
		e := strconv.FormatFloat(f, 'e', -1, 64) // 5e-01
		return e
	case 6:
		e := strconv.FormatFloat(f, 'E', -1, 64)
		return e
	case 7:
		// mantissa ending in a point before the exponent: 5.e-7
		e := strconv.FormatFloat(f, 'e', -1, 64)
		if k := strings.Index(e, "e"); k > 0 && !strings.Contains(e[:k], ".") {
			if !neg {
				return "+" + e[:k] + "." + e[k:]
			}
			return e[:k] + "." + e[k:]
		}
		return e
	}
	return s
}

// Print renders the tree.
func (y *Y) Print(o YOpts) string {
	if o.Indent <= 0 {
		o.Indent = 2
	}
	var sb strings.Builder
	if o.Header {
		sb.WriteString("#%Validation Profile 1.0\n")
	}
	p := &yprinter{o: o, sb: &sb}
	if o.Flow >= 3 {
		// the whole document in flow style on one line (what a JSON-minded tool emits)
		sb.WriteString(p.flow(y) + "\n")
		return sb.String()
	}
	p.block(y, 0)
	return sb.String()
}

type yprinter struct {
	o  YOpts
	sb *strings.Builder
	n  int
}

func (p *yprinter) pad(l int) string { return strings.Repeat(" ", l) }

func (p *yprinter) comment(col int) {
	p.n++
	if p.o.Comments && p.n%3 == 0 {
		fmt.Fprintf(p.sb, "%s# note %d: targetClass message violation\n", p.pad(col), p.n)
		if p.n%2 == 0 {
			p.sb.WriteString("\n")
		}
	}
}

func scalarOnly(y *Y) bool {
	for _, it := range y.Items {
		if it.Kind == "map" || it.Kind == "seq" {
			return false
		}
	}
	for _, v := range y.Vals {
		if v.Kind == "map" || v.Kind == "seq" {
			return false
		}
	}
	return true
}

func (p *yprinter) useFlow(y *Y) bool {
	switch y.Kind {
	case "seq":
		return len(y.Items) == 0 || (p.o.Flow >= 1 && scalarOnly(y))
	case "map":
		return len(y.Keys) == 0 || (p.o.Flow >= 2 && scalarOnly(y) && len(y.Keys) <= 3)
	}
	return false
}

func (p *yprinter) flow(y *Y) string {
	switch y.Kind {
	case "seq":
		parts := make([]string, len(y.Items))
		for i, it := range y.Items {
			parts[i] = p.flow(it)
		}
		return "[" + strings.Join(parts, ", ") + "]"
	case "map":
		parts := make([]string, len(y.Keys))
		for i, k := range y.Keys {
			parts[i] = p.key(k, true) + ": " + p.flow(y.Vals[i])
		}
		return "{" + strings.Join(parts, ", ") + "}"
	default:
		return p.scalar(y, true)
	}
}

// block prints y as block content starting at column col (cursor is at line start).
func (p *yprinter) block(y *Y, col int) {
	switch y.Kind {
	case "map":
		for i, k := range y.Keys {
			p.comment(col)
			v := y.Vals[i]
			p.sb.WriteString(p.pad(col) + p.key(k, false) + ":")
			p.value(v, col)
		}
	case "seq":
		for _, it := range y.Items {
			p.comment(col)
			p.sb.WriteString(p.pad(col) + "-")
			switch {
			case it.Kind == "map" && !p.useFlow(it) && len(it.Keys) > 0:
				// first key on the dash line
				p.sb.WriteString(" " + p.key(it.Keys[0], false) + ":")
				p.value(it.Vals[0], col+2)
				rest := &Y{Kind: "map", Keys: it.Keys[1:], Vals: it.Vals[1:]}
				p.block(rest, col+2)
			case it.Kind == "seq" && !p.useFlow(it):
				p.sb.WriteString("\n")
				p.block(it, col+2)
			default:
				p.sb.WriteString(" " + p.flow(it) + "\n")
			}
		}
	default:
		p.sb.WriteString(p.pad(col) + p.scalar(y, false) + "\n")
	}
}

// value prints the value after "key:" and ends the line(s).
func (p *yprinter) value(v *Y, col int) {
	switch {
	case (v.Kind == "map" || v.Kind == "seq") && p.useFlow(v):
		p.sb.WriteString(" " + p.flow(v) + "\n")
	case v.Kind == "map":
		p.sb.WriteString("\n")
		p.block(v, col+p.o.Indent)
	case v.Kind == "seq":
		p.sb.WriteString("\n")
		if p.o.SeqIndent {
			p.block(v, col+p.o.Indent)
		} else {
			p.block(v, col)
		}
	default:
		if v.Kind == "str" && p.o.Literal {
			if body, chomp, ok := blockScalarParts(v.S); ok {
				p.n++
				switch p.n % 4 {
				case 0: // literal: every line break is content
					p.sb.WriteString(" |" + chomp + "\n")
					for _, line := range strings.Split(body, "\n") {
						if line == "" {
							p.sb.WriteString("\n")
						} else {
							p.sb.WriteString(p.pad(col+p.o.Indent) + line + "\n")
						}
					}
					return
				case 1: // folded: a single line break between two non-blank lines is a space
					if !strings.Contains(body, "\n") {
						p.sb.WriteString(" >" + chomp + "\n")
						for _, line := range foldAtSpaces(body) {
							p.sb.WriteString(p.pad(col+p.o.Indent) + line + "\n")
						}
						return
					}
				}
			}
		}
		p.sb.WriteString(" " + p.scalar(v, false) + "\n")
	}
}

// blockScalarParts splits a string into the body of a block scalar and its chomping indicator ("-" when the
// string has no final line break, "" when it has exactly one), or reports that the string cannot be written
// as a block scalar without an indentation indicator.
func blockScalarParts(s string) (body, chomp string, ok bool) {
	body, chomp = s, "-"
	if strings.HasSuffix(s, "\n") {
		body, chomp = s[:len(s)-1], ""
	}
	if body == "" || strings.HasSuffix(body, "\n") || strings.HasPrefix(body, "\n") {
		return "", "", false
	}
	for _, line := range strings.Split(body, "\n") {
		if strings.HasPrefix(line, " ") || strings.HasSuffix(line, " ") || strings.HasPrefix(line, "\t") {
			return "", "", false
		}
	}
	for _, r := range body {
		if r == '\t' || r == '\r' || (r < 0x20 && r != '\n') || r == 0x7f || r == 0x85 || r == 0x2028 || r == 0x2029 || r == 0xfeff {
			return "", "", false
		}
	}
	return body, chomp, true
}

// foldAtSpaces breaks a one-line body at every second isolated space: a folded scalar joins the pieces
// with a single space again.
func foldAtSpaces(body string) []string {
	var lines []string
	start, seen := 0, 0
	for i := 1; i+1 < len(body); i++ {
		if body[i] == ' ' && body[i-1] != ' ' && body[i+1] != ' ' {
			seen++
			if seen%2 == 0 {
				lines = append(lines, body[start:i])
				start = i + 1
			}
		}
	}
	return append(lines, body[start:])
}

func (p *yprinter) key(k string, inFlow bool) string {
	return p.str(k, inFlow, true)
}

func (p *yprinter) scalar(y *Y, inFlow bool) string {
	switch y.Kind {
	case "int":
		return SpellInt(y.I, p.o.NumStyle)
	case "float":
		return SpellFloat(y.F, p.o.NumStyle)
	case "bool":
		return strconv.FormatBool(y.B)
	default:
		return p.str(y.S, inFlow, false)
	}
}

func plainSafe(s string, inFlow bool) bool {
	if s == "" {
		return false
	}
	switch strings.ToLower(s) {
	case "null", "~", "true", "false", "yes", "no", "on", "off", "y", "n", ".inf", "-.inf", ".nan":
		return false
	}
	if _, err := strconv.ParseFloat(s, 64); err == nil {
		return false
	}
	if _, err := strconv.ParseInt(s, 0, 64); err == nil {
		return false
	}
	first := rune(s[0])
	if strings.ContainsRune("-?:,[]{}#&*!|>'\"%@`=<~ ", first) {
		return false
	}
	if s[len(s)-1] == ' ' || s[len(s)-1] == ':' {
		return false
	}
	for _, r := range s {
		if r > unicode.MaxASCII || !unicode.IsPrint(r) {
			return false
		}
		if strings.ContainsRune("#:\"'\\\n\t", r) {
			return false
		}
		if inFlow && strings.ContainsRune(",[]{}", r) {
			return false
		}
	}
	return true
}

func (p *yprinter) str(s string, inFlow bool, isKey bool) string {
	q := p.o.Quote
	if q == 0 && plainSafe(s, inFlow) {
		return s
	}
	if q == 2 && singleSafe(s) {
		return "'" + strings.ReplaceAll(s, "'", "''") + "'"
	}
	return DoubleQuote(s)
}

func singleSafe(s string) bool {
	for _, r := range s {
		if r == '\n' || r == '\t' || r == '\r' || !unicode.IsPrint(r) && r != ' ' {
			return false
		}
	}
	return true
}

// DoubleQuote renders s as a YAML double-quoted scalar.
func DoubleQuote(s string) string {
	var sb strings.Builder
	sb.WriteByte('"')
	for _, r := range s {
		switch r {
		case '"':
			sb.WriteString(`\"`)
		case '\\':
			sb.WriteString(`\\`)
		case '\n':
			sb.WriteString(`\n`)
		case '\t':
			sb.WriteString(`\t`)
		case '\r':
			sb.WriteString(`\r`)
		default:
			if r < 0x20 || r == 0x7f || r == 0x85 || r == 0xa0 || r == 0x2028 || r == 0x2029 || r == 0xfeff {
				if r <= 0xff {
					fmt.Fprintf(&sb, `\x%02x`, r)
				} else {
					fmt.Fprintf(&sb, `\u%04x`, r)
				}
			} else {
				sb.WriteRune(r)
			}
		}
	}
	sb.WriteByte('"')
	return sb.String()
}

// ToAny converts the tree to plain Go values (maps, slices, scalars).
func (y *Y) ToAny() any {
	switch y.Kind {
	case "map":
		m := map[string]any{}
		for i, k := range y.Keys {
			m[k] = y.Vals[i].ToAny()
		}
		return m
	case "seq":
		out := make([]any, len(y.Items))
		for i, it := range y.Items {
			out[i] = it.ToAny()
		}
		return out
	case "int":
		return int(y.I)
	case "float":
		return y.F
	case "bool":
		return y.B
	default:
		return y.S
	}
}
