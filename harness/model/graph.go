// Package model holds the reference side of the harness: an abstract graph,
// a formula AST with a classical evaluator, a path AST with a set denotation,
// serialisers (JSON-LD, YAML) and a report reader. Nothing here imports the
// code under test.
package model

import (
	"encoding/json"
	"fmt"
	"sort"
	"strconv"
	"strings"
)

const (
	NS     = "http://ex.org/v#" // namespace bound to prefix `ex` in generated profiles
	NodeNS = "http://ex.org/n/" // node ids
	XSD    = "http://www.w3.org/2001/XMLSchema#"
)

// Lit is a literal value. K: "s" string, "i" integer, "b" boolean, "f" decimal, "t" typed literal (lexical form S, datatype DT).
type Lit struct {
	K  string  `json:"k"`
	DT string  `json:"dt,omitempty"`
	S  string  `json:"s,omitempty"`
	I  int64   `json:"i,omitempty"`
	B  bool    `json:"b,omitempty"`
	F  float64 `json:"f,omitempty"`
}

func S(s string) Lit   { return Lit{K: "s", S: s} }
func I(i int64) Lit    { return Lit{K: "i", I: i} }
func B(b bool) Lit     { return Lit{K: "b", B: b} }
func Fl(f float64) Lit { return Lit{K: "f", F: f} }

// Typed is a literal with an explicit datatype IRI, e.g. Typed("5", XSD+"integer").
func Typed(lex, dt string) Lit { return Lit{K: "t", S: lex, DT: dt} }

// Key is a canonical identity of the literal (type-sensitive).
func (l Lit) Key() string {
	switch l.K {
	case "s":
		return "s:" + l.S
	case "i":
		return "i:" + strconv.FormatInt(l.I, 10)
	case "b":
		return "b:" + strconv.FormatBool(l.B)
	case "t":
		return "t:" + l.DT + "^^" + l.S
	default:
		return "f:" + strconv.FormatFloat(l.F, 'g', -1, 64)
	}
}

// AsString is the image the validator's `as_string` gives the literal.
func (l Lit) AsString() string {
	switch l.K {
	case "s":
		return l.S
	case "i":
		return strconv.FormatInt(l.I, 10)
	case "b":
		return strconv.FormatBool(l.B)
	default:
		return strconv.FormatInt(int64(l.F), 10) // format_int truncates
	}
}

// JSON renders the native JSON scalar.
func (l Lit) JSON() any {
	switch l.K {
	case "s":
		return l.S
	case "i":
		return json.Number(strconv.FormatInt(l.I, 10))
	case "b":
		return l.B
	default:
		return json.Number(strconv.FormatFloat(l.F, 'f', -1, 64))
	}
}

// Val is one value of a property: a literal or a reference to a node (by index).
type Val struct {
	Lit  *Lit `json:"lit,omitempty"`
	Node int  `json:"node"` // valid when Lit == nil
}

func LV(l Lit) Val         { return Val{Lit: &l} }
func NV(i int) Val         { return Val{Node: i} }
func (v Val) IsNode() bool { return v.Lit == nil }

// Node is one node of the abstract graph. Props maps a full property IRI to values.
type Node struct {
	ID    string           `json:"id"`
	Types []string         `json:"types,omitempty"` // full IRIs
	Props map[string][]Val `json:"props,omitempty"`
}

// Graph is a list of nodes; Val.Node indexes into it.
type Graph struct {
	Nodes []*Node `json:"nodes"`
	// Bulk is a number of inert filler nodes that belong to the graph but are only materialised by the serialiser:
	// class ex:Filler, one label, one link to another filler through ex:fillerNext. Nothing in a generated profile
	// mentions them, so the reference model ignores them; they exist to make documents with hundreds of nodes.
	// With BulkBlank every other filler is a blank node.
	Bulk      int  `json:"bulk,omitempty"`
	BulkBlank bool `json:"bulk_blank,omitempty"`
}

// withFillers returns the graph with its filler nodes materialised and a node order in which the real nodes keep
// their relative order and the fillers are spread evenly between them.
func (g *Graph) withFillers(order []int) (*Graph, []int) {
	n := len(g.Nodes)
	if len(order) != n {
		order = make([]int, n)
		for i := range order {
			order[i] = i
		}
	}
	g2 := &Graph{Nodes: append([]*Node{}, g.Nodes...)}
	k := g.Bulk
	for i := 0; i < k; i++ {
		id := NodeNS + "filler" + strconv.Itoa(i)
		if g.BulkBlank && i%2 == 1 {
			id = "_:filler" + strconv.Itoa(i)
		}
		f := &Node{ID: id, Types: []string{NS + "Filler"}, Props: map[string][]Val{}}
		f.AddVal(NS+"fillerLabel", LV(S("f"+strconv.Itoa(i))))
		f.AddVal(NS+"fillerNext", NV(n+(i+k/2+1)%k))
		g2.Nodes = append(g2.Nodes, f)
	}
	var out []int
	per := k / (n + 1)
	next := 0
	for _, i := range order {
		for j := 0; j < per; j++ {
			out = append(out, n+next)
			next++
		}
		out = append(out, i)
	}
	for ; next < k; next++ {
		out = append(out, n+next)
	}
	return g2, out
}

func NodeID(i int) string { return NodeNS + "n" + strconv.Itoa(i) }

// NewGraph makes n nodes with ids n0..n(n-1).
func NewGraph(n int) *Graph {
	g := &Graph{}
	for i := 0; i < n; i++ {
		g.Nodes = append(g.Nodes, &Node{ID: NodeID(i), Props: map[string][]Val{}})
	}
	return g
}

func (g *Graph) Add(types ...string) int {
	i := len(g.Nodes)
	g.Nodes = append(g.Nodes, &Node{ID: NodeID(i), Types: types, Props: map[string][]Val{}})
	return i
}

func (n *Node) HasType(t string) bool {
	for _, x := range n.Types {
		if x == t {
			return true
		}
	}
	return false
}

// AddVal appends a value unless an identical one is already present (RDF set semantics).
func (n *Node) AddVal(prop string, v Val) {
	for _, x := range n.Props[prop] {
		if x.IsNode() && v.IsNode() && x.Node == v.Node {
			return
		}
		if !x.IsNode() && !v.IsNode() && x.Lit.Key() == v.Lit.Key() {
			return
		}
	}
	n.Props[prop] = append(n.Props[prop], v)
}

func (n *Node) Lits(prop string) []Lit {
	var out []Lit
	for _, v := range n.Props[prop] {
		if !v.IsNode() {
			out = append(out, *v.Lit)
		}
	}
	return out
}

// Children returns the distinct node indexes reached through prop.
func (n *Node) Children(prop string) []int {
	var out []int
	seen := map[int]bool{}
	for _, v := range n.Props[prop] {
		if v.IsNode() && !seen[v.Node] {
			seen[v.Node] = true
			out = append(out, v.Node)
		}
	}
	return out
}

func (n *Node) SortedProps() []string {
	ks := make([]string, 0, len(n.Props))
	for k := range n.Props {
		ks = append(ks, k)
	}
	sort.Strings(ks)
	return ks
}

// ------------------------------------------------------------------ JSON-LD

// LDOpts are independent surface-form choices. The zero value is the plain
// expanded form: a top-level array of flat nodes with absolute IRIs, every
// value wrapped ({"@value":x} / {"@id":y}) inside an array.
type LDOpts struct {
	Context    bool  `json:"context,omitempty"`     // use an @context with prefix `ex:` (and `n:` for ids)
	Vocab      bool  `json:"vocab,omitempty"`       // @vocab instead of the ex: prefix (needs Context)
	Base       bool  `json:"base,omitempty"`        // @base + relative node ids (needs Context)
	Embed      bool  `json:"embed,omitempty"`       // embed a node at its first reference instead of listing it flat
	GraphWrap  int   `json:"graph_wrap,omitempty"`  // 0 top-level array, 1 {"@graph":[…]}, 2 single object when one root
	NodeOrder  []int `json:"node_order,omitempty"`  // permutation of node indexes (nil = identity)
	KeyRot     int   `json:"key_rot,omitempty"`     // rotate the sorted key list of every object by this much
	Unwrap1    bool  `json:"unwrap1,omitempty"`     // single value instead of a 1-element array
	TypeString bool  `json:"type_string,omitempty"` // @type as string when there is one class
	TypeRev    bool  `json:"type_rev,omitempty"`    // list the classes of a node in reverse order
	NativeLit  bool  `json:"native_lit,omitempty"`  // x instead of {"@value":x}
	XsdPrefix  bool  `json:"xsd_prefix,omitempty"`  // with Context: write datatype IRIs of typed literals as xsd:<local>
	DupValues  bool  `json:"dup_values,omitempty"`  // repeat the first value of multi-valued properties
	SplitNodes bool  `json:"split_nodes,omitempty"` // emit nodes with >1 property as two entries with the same @id
	Indent     int   `json:"indent,omitempty"`      // 0 compact, n spaces
	Aliases    bool  `json:"aliases,omitempty"`     // with Context: keyword aliases id/type/value for @id/@type/@value
	Reverse    bool  `json:"reverse,omitempty"`     // state the last node value of every property on the target node, under @reverse
	Coerce     bool  `json:"coerce,omitempty"`      // with Context: properties holding node references only get a term definition with "@type":"@id" and their references are written as strings
	SetObj     bool  `json:"set_obj,omitempty"`     // write value arrays as {"@set":[…]}
	PadBytes   int   `json:"pad_bytes,omitempty"`   // pad the document with insignificant white space up to this many bytes
	EmptyProps bool  `json:"empty_props,omitempty"` // write the properties a node does not have (but another node has) with an empty value list: no triple, same graph
}

type omap struct {
	keys []string
	vals map[string]any
}

func newOmap() *omap { return &omap{vals: map[string]any{}} }
func (o *omap) set(k string, v any) {
	if _, ok := o.vals[k]; !ok {
		o.keys = append(o.keys, k)
	}
	o.vals[k] = v
}

// encode writes JSON with the object key order decided by rot over sorted keys.
func encodeJSON(sb *strings.Builder, v any, rot int, indent int, level int) {
	nl := func(l int) {
		if indent > 0 {
			sb.WriteByte('\n')
			sb.WriteString(strings.Repeat(" ", indent*l))
		}
	}
	switch x := v.(type) {
	case *omap:
		keys := append([]string(nil), x.keys...)
		sort.Strings(keys)
		if len(keys) > 0 && rot != 0 {
			r := ((rot % len(keys)) + len(keys)) % len(keys)
			keys = append(keys[r:], keys[:r]...)
		}
		sb.WriteByte('{')
		for i, k := range keys {
			if i > 0 {
				sb.WriteByte(',')
			}
			nl(level + 1)
			kb, _ := json.Marshal(k)
			sb.Write(kb)
			sb.WriteByte(':')
			if indent > 0 {
				sb.WriteByte(' ')
			}
			encodeJSON(sb, x.vals[k], rot, indent, level+1)
		}
		if len(keys) > 0 {
			nl(level)
		}
		sb.WriteByte('}')
	case []any:
		sb.WriteByte('[')
		for i, e := range x {
			if i > 0 {
				sb.WriteByte(',')
			}
			nl(level + 1)
			encodeJSON(sb, e, rot, indent, level+1)
		}
		if len(x) > 0 {
			nl(level)
		}
		sb.WriteByte(']')
	case json.Number:
		sb.WriteString(string(x))
	default:
		b, _ := json.Marshal(x)
		sb.Write(b)
	}
}

// JSONLD serialises the graph under the given options.
func (g *Graph) JSONLD(o LDOpts) string {
	splitFar := false
	if g.Bulk > 0 {
		g, o.NodeOrder = g.withFillers(o.NodeOrder)
		splitFar = true // the two entries of a split node end up far apart
	}
	iri := func(full string) string { // property / class IRIs
		if o.Context && strings.HasPrefix(full, NS) {
			if o.Vocab {
				return strings.TrimPrefix(full, NS)
			}
			return "ex:" + strings.TrimPrefix(full, NS)
		}
		return full
	}
	nid := func(full string) string {
		if o.Context && o.Base && strings.HasPrefix(full, NodeNS) {
			return strings.TrimPrefix(full, NodeNS)
		}
		return full
	}
	kw := func(k string) string {
		if o.Context && o.Aliases {
			return strings.TrimPrefix(k, "@")
		}
		return k
	}
	// properties that hold node references only (candidates for "@type":"@id" coercion)
	refOnly := map[string]bool{}
	if o.Context && o.Coerce {
		for _, n := range g.Nodes {
			for p, vs := range n.Props {
				if _, seen := refOnly[p]; !seen {
					refOnly[p] = true
				}
				for _, v := range vs {
					if !v.IsNode() {
						refOnly[p] = false
					}
				}
			}
		}
	}
	// edges stated on their target: moved[i][p] = how many trailing values of node i's property p are moved,
	// reverse[j][p] = the nodes that point to j through p
	moved := map[int]map[string]bool{}
	reverse := map[int]map[string][]int{}
	if o.Reverse {
		for i, n := range g.Nodes {
			for p, vs := range n.Props {
				if len(vs) == 0 || !vs[len(vs)-1].IsNode() {
					continue
				}
				j := vs[len(vs)-1].Node
				if moved[i] == nil {
					moved[i] = map[string]bool{}
				}
				moved[i][p] = true
				if reverse[j] == nil {
					reverse[j] = map[string][]int{}
				}
				reverse[j][p] = append(reverse[j][p], i)
			}
		}
	}
	order := o.NodeOrder
	if len(order) != len(g.Nodes) {
		order = make([]int, len(g.Nodes))
		for i := range order {
			order[i] = i
		}
	}
	// every property used somewhere in the graph (for EmptyProps)
	var vocabulary []string
	if o.EmptyProps {
		seenProp := map[string]bool{}
		for _, n := range g.Nodes {
			for p := range n.Props {
				if !seenProp[p] && !strings.HasPrefix(p, NS+"filler") {
					seenProp[p] = true
					vocabulary = append(vocabulary, p)
				}
			}
		}
		sort.Strings(vocabulary)
	}
	emitted := map[int]bool{}
	var nodeObj func(i int, allowEmbed bool, props []string) *omap
	wrapVals := func(vals []any) any {
		if o.Unwrap1 && len(vals) == 1 {
			return vals[0]
		}
		if o.SetObj {
			r := newOmap()
			r.set("@set", vals)
			return r
		}
		return vals
	}
	nodeObj = func(i int, allowEmbed bool, props []string) *omap {
		n := g.Nodes[i]
		m := newOmap()
		m.set(kw("@id"), nid(n.ID))
		withType := props == nil
		for _, p := range props {
			if p == "@type" {
				withType = true
			}
		}
		if withType {
			if len(n.Types) > 0 {
				if o.TypeString && len(n.Types) == 1 {
					m.set(kw("@type"), iri(n.Types[0]))
				} else {
					ts := make([]any, len(n.Types))
					for k, t := range n.Types {
						if o.TypeRev {
							ts[len(n.Types)-1-k] = iri(t)
						} else {
							ts[k] = iri(t)
						}
					}
					m.set(kw("@type"), ts)
				}
			}
			if rv := reverse[i]; len(rv) > 0 {
				rm := newOmap()
				rps := make([]string, 0, len(rv))
				for p := range rv {
					rps = append(rps, p)
				}
				sort.Strings(rps)
				for _, p := range rps {
					var refs []any
					for _, src := range rv[p] {
						if refOnly[p] {
							refs = append(refs, nid(g.Nodes[src].ID))
							continue
						}
						r := newOmap()
						r.set(kw("@id"), nid(g.Nodes[src].ID))
						refs = append(refs, r)
					}
					rm.set(iri(p), refs)
				}
				m.set("@reverse", rm)
			}
		}
		ps := props
		if ps == nil {
			ps = n.SortedProps()
		}
		for _, p := range ps {
			if p == "@type" {
				continue
			}
			var vals []any
			src := n.Props[p]
			if moved[i][p] {
				src = src[:len(src)-1]
			}
			for vi, v := range src {
				var jv any
				if v.IsNode() {
					if allowEmbed && o.Embed && !emitted[v.Node] {
						emitted[v.Node] = true
						jv = nodeObj(v.Node, true, nil)
					} else if refOnly[p] {
						jv = nid(g.Nodes[v.Node].ID)
					} else {
						r := newOmap()
						r.set(kw("@id"), nid(g.Nodes[v.Node].ID))
						jv = r
					}
				} else if v.Lit.K == "t" {
					r := newOmap()
					r.set(kw("@value"), v.Lit.S)
					dt := v.Lit.DT
					if o.Context && o.XsdPrefix && strings.HasPrefix(dt, XSD) {
						dt = "xsd:" + strings.TrimPrefix(dt, XSD)
					}
					r.set(kw("@type"), dt)
					jv = r
				} else if o.NativeLit {
					jv = v.Lit.JSON()
				} else {
					r := newOmap()
					r.set(kw("@value"), v.Lit.JSON())
					jv = r
				}
				vals = append(vals, jv)
				if o.DupValues && vi == 0 && len(src) > 1 && !(v.IsNode() && o.Embed) {
					vals = append(vals, jv)
				}
			}
			if len(vals) == 0 {
				continue
			}
			m.set(iri(p), wrapVals(vals))
		}
		if props == nil && !strings.HasPrefix(n.ID, NodeNS+"filler") && !strings.HasPrefix(n.ID, "_:filler") {
			for _, p := range vocabulary {
				if len(n.Props[p]) == 0 {
					if o.SetObj {
						e := newOmap()
						e.set("@set", []any{})
						m.set(iri(p), e)
					} else {
						m.set(iri(p), []any{})
					}
				}
			}
		}
		return m
	}
	var top, late []any
	for _, i := range order {
		if emitted[i] {
			continue
		}
		emitted[i] = true
		n := g.Nodes[i]
		ps := n.SortedProps()
		if o.SplitNodes && len(ps) >= 2 {
			h := len(ps) / 2
			first := append([]string{"@type"}, ps[:h]...)
			top = append(top, nodeObj(i, true, first))
			if splitFar {
				late = append(late, nodeObj(i, true, ps[h:]))
			} else {
				top = append(top, nodeObj(i, true, ps[h:]))
			}
		} else {
			top = append(top, nodeObj(i, true, nil))
		}
	}
	top = append(top, late...)
	var doc any = top
	var ctx *omap
	if o.Context {
		ctx = newOmap()
		if o.Vocab {
			ctx.set("@vocab", NS)
		} else {
			ctx.set("ex", NS)
		}
		if o.Base {
			ctx.set("@base", NodeNS)
		}
		if o.XsdPrefix {
			ctx.set("xsd", XSD)
		}
		if o.Aliases {
			ctx.set("id", "@id")
			ctx.set("type", "@type")
			ctx.set("value", "@value")
		}
		var coerced []string
		for p, only := range refOnly {
			if only {
				coerced = append(coerced, p)
			}
		}
		sort.Strings(coerced)
		for _, p := range coerced {
			def := newOmap()
			def.set("@id", p)
			def.set("@type", "@id")
			ctx.set(iri(p), def)
		}
	}
	switch {
	case o.GraphWrap == 2 && len(top) == 1:
		d := top[0].(*omap)
		if ctx != nil {
			d.set("@context", ctx)
		}
		doc = d
	case o.GraphWrap >= 1 || ctx != nil:
		d := newOmap()
		if ctx != nil {
			d.set("@context", ctx)
		}
		d.set("@graph", top)
		doc = d
	}
	var sb strings.Builder
	encodeJSON(&sb, doc, o.KeyRot, o.Indent, 0)
	out := sb.String()
	if pad := o.PadBytes - len(out); pad > 0 && len(out) > 0 {
		// insignificant white space after the opening bracket
		out = out[:1] + "\n" + strings.Repeat(" ", pad) + out[1:]
	}
	return out
}

func (g *Graph) String() string {
	var sb strings.Builder
	for i, n := range g.Nodes {
		fmt.Fprintf(&sb, "n%d %v", i, shortTypes(n.Types))
		for _, p := range n.SortedProps() {
			fmt.Fprintf(&sb, " %s=[", strings.TrimPrefix(p, NS))
			for k, v := range n.Props[p] {
				if k > 0 {
					sb.WriteByte(' ')
				}
				if v.IsNode() {
					fmt.Fprintf(&sb, "->n%d", v.Node)
				} else {
					sb.WriteString(v.Lit.Key())
				}
			}
			sb.WriteByte(']')
		}
		sb.WriteByte('\n')
	}
	return sb.String()
}

func shortTypes(ts []string) []string {
	out := make([]string, len(ts))
	for i, t := range ts {
		out[i] = strings.TrimPrefix(t, NS)
	}
	return out
}
