package model

import (
	"fmt"
	"sort"
	"strings"
)

// ---------------------------------------------------------------- atoms

// AtomRow is one row of the witness table: a constraint with its argument and
// the literal values that satisfy / violate it. The table is the specification
// of atom meaning used by the reference evaluator; it is confirmed against the
// real validator by the table self-test (one single-atom profile per row and witness).
type AtomRow struct {
	Kind  string   // constraint key in the profile language
	Arg   *Y       // YAML argument
	Sat   []Lit    // per-value kinds: values that satisfy
	Viol  []Lit    // per-value kinds: values that violate
	N     int      // count kinds: the argument
	Set   []string // set kinds: the argument list (as strings)
	Class string   // "value", "count", "set", "cmp"
	// TableOnly rows are confirmed by the table self-test but never drawn by the formula generators
	TableOnly bool
	// Finding names a recorded defect this row documents: a satisfying witness with a fractional number that the
	// validator reports all the same carries this signature instead of the generic one (see known_findings.json)
	Finding string
}

func strs(ss ...string) []Lit {
	out := make([]Lit, len(ss))
	for i, s := range ss {
		out[i] = S(s)
	}
	return out
}

// AtomTable lists every documented atomic constraint kind with boundary witnesses.
var AtomTable = buildAtomTable()

// DrawableRows are the indexes of the rows a formula generator may draw.
var DrawableRows = func() []int {
	var out []int
	for i, r := range AtomTable {
		if !r.TableOnly {
			out = append(out, i)
		}
	}
	return out
}()

func buildAtomTable() []AtomRow {
	t := []AtomRow{
		{Kind: "pattern", Arg: YStr("^a+$"), Sat: strs("a", "aaa"), Viol: strs("b", "ab", "ba"), Class: "value"},
		{Kind: "pattern", Arg: YStr("^[0-9]+$"), Sat: strs("0", "42"), Viol: strs("x", "4 2", "4x"), Class: "value"},
		{Kind: "pattern", Arg: YStr("b"), Sat: strs("abc", "b"), Viol: strs("a", "xyz"), Class: "value"},
		{Kind: "minLength", Arg: YInt(3), Sat: strs("abc", "abcd"), Viol: strs("ab", "a", ""), Class: "value"},
		{Kind: "maxLength", Arg: YInt(3), Sat: strs("abc", "ab", ""), Viol: strs("abcd", "abcde"), Class: "value"},
		{Kind: "exactLength", Arg: YInt(2), Sat: strs("ab", "xy"), Viol: strs("a", "abc", ""), Class: "value"},
		{Kind: "minInclusive", Arg: YInt(5), Sat: []Lit{I(5), I(6), Fl(5.5)}, Viol: []Lit{I(4), Fl(4.5)}, Class: "value"},
		{Kind: "minExclusive", Arg: YInt(5), Sat: []Lit{I(6), Fl(5.5)}, Viol: []Lit{I(5), I(4)}, Class: "value"},
		{Kind: "maxInclusive", Arg: YInt(5), Sat: []Lit{I(5), I(4), Fl(4.5)}, Viol: []Lit{I(6), Fl(5.5)}, Class: "value"},
		{Kind: "maxExclusive", Arg: YInt(5), Sat: []Lit{I(4), Fl(4.5)}, Viol: []Lit{I(5), I(6)}, Class: "value"},
		{Kind: "minInclusive", Arg: YFloat(2.5), Sat: []Lit{Fl(2.5), I(3)}, Viol: []Lit{I(2), Fl(2.25)}, Class: "value"},
		{Kind: "maxExclusive", Arg: YFloat(2.5), Sat: []Lit{I(2), Fl(2.25)}, Viol: []Lit{Fl(2.5), I(3)}, Class: "value"},
		{Kind: "datatype", Arg: YStr("xsd.string"), Sat: strs("abc", "5"), Viol: []Lit{I(5), B(true)}, Class: "value"},
		{Kind: "datatype", Arg: YStr("xsd.integer"), Sat: []Lit{I(5), I(0)}, Viol: []Lit{S("abc"), B(true)}, Class: "value"},
		{Kind: "datatype", Arg: YStr("xsd.boolean"), Sat: []Lit{B(true), B(false)}, Viol: []Lit{S("true"), I(1)}, Class: "value"},
		{Kind: "in", Arg: YSeq(YStr("a"), YStr("b")), Sat: strs("a", "b"), Viol: strs("c", "ab"), Class: "value"},
		{Kind: "in", Arg: YSeq(YInt(1), YInt(2)), Sat: []Lit{I(1), I(2)}, Viol: []Lit{I(3), I(12)}, Class: "value"},
		{Kind: "in", Arg: YSeq(YBool(true)), Sat: []Lit{B(true)}, Viol: []Lit{B(false)}, Class: "value"},
		// lists with repeated values denote the same set
		{Kind: "in", Arg: YSeq(YStr("a"), YStr("b"), YStr("c"), YStr("d"), YStr("e"), YStr("a")), Sat: strs("a", "e", "c"), Viol: strs("f", "ae"), Class: "value"},
	}
	for n := 1; n <= 3; n++ {
		t = append(t, AtomRow{Kind: "minCount", Arg: YInt(int64(n)), N: n, Class: "count"})
	}
	for n := 0; n <= 2; n++ {
		t = append(t, AtomRow{Kind: "maxCount", Arg: YInt(int64(n)), N: n, Class: "count"})
	}
	for n := 0; n <= 2; n++ {
		t = append(t, AtomRow{Kind: "exactCount", Arg: YInt(int64(n)), N: n, Class: "count"})
	}
	t = append(t,
		AtomRow{Kind: "containsAll", Arg: YSeq(YStr("a"), YStr("b")), Set: []string{"a", "b"}, Class: "set"},
		AtomRow{Kind: "containsAll", Arg: YSeq(YInt(1)), Set: []string{"1"}, Class: "set"},
		AtomRow{Kind: "containsSome", Arg: YSeq(YStr("a"), YStr("b")), Set: []string{"a", "b"}, Class: "set"},
		AtomRow{Kind: "containsSome", Arg: YSeq(YStr("a"), YStr("b"), YStr("c")), Set: []string{"a", "b", "c"}, Class: "set"},
		AtomRow{Kind: "containsAll", Arg: YSeq(YStr("a"), YStr("b"), YStr("a"), YStr("b")), Set: []string{"a", "b"}, Class: "set"},
		AtomRow{Kind: "containsSome", Arg: YSeq(YStr("c"), YStr("a"), YStr("b"), YStr("c"), YStr("a")), Set: []string{"a", "b", "c"}, Class: "set"},
		AtomRow{Kind: "uniqueValues", Arg: YBool(true), Class: "unique"},
		AtomRow{Kind: "lessThanProperty", Class: "cmp"},
		AtomRow{Kind: "lessThanOrEqualsToProperty", Class: "cmp"},
		AtomRow{Kind: "equalsToProperty", Class: "cmp"},
		AtomRow{Kind: "disjointWithProperty", Class: "cmp"},
	)
	// rows added later go last: replay files refer to rows by index
	t = append(t,
		AtomRow{Kind: "datatype", Arg: YStr("xsd.float"), Sat: []Lit{Fl(1.5), I(2)}, Viol: []Lit{S("1.5"), B(false)}, Class: "value"},
		AtomRow{Kind: "datatype", Arg: YStr("xsd.date"), Sat: []Lit{Typed("2020-01-01", XSD+"date")}, Viol: []Lit{S("2020-01-01"), I(5), Typed("12:00:00", XSD+"time")}, Class: "value"},
		// empty argument lists: nothing is required (containsAll), nothing can be found (containsSome), no value is
		// allowed (in). They cannot take both truth values, so only the table self-test uses them.
		AtomRow{Kind: "containsAll", Arg: YSeq(), Set: []string{}, Class: "set", TableOnly: true},
		AtomRow{Kind: "containsSome", Arg: YSeq(), Set: []string{}, Class: "set", TableOnly: true},
		AtomRow{Kind: "in", Arg: YSeq(), Viol: []Lit{S("a"), S(""), I(0)}, Class: "value", TableOnly: true},
		// boundary arguments
		AtomRow{Kind: "maxCount", Arg: YInt(0), N: 0, Class: "count"},
		AtomRow{Kind: "exactCount", Arg: YInt(0), N: 0, Class: "count"},
		AtomRow{Kind: "minCount", Arg: YInt(0), N: 0, Class: "count", TableOnly: true},
		AtomRow{Kind: "maxLength", Arg: YInt(0), Sat: strs(""), Viol: strs("a", " "), Class: "value"},
		AtomRow{Kind: "minLength", Arg: YInt(0), Sat: strs("", "a"), Class: "value", TableOnly: true},
		AtomRow{Kind: "pattern", Arg: YStr(""), Sat: strs("", "abc"), Class: "value", TableOnly: true},
		AtomRow{Kind: "minInclusive", Arg: YInt(-5), Sat: []Lit{I(-5), I(0), Fl(-4.5)}, Viol: []Lit{I(-6), Fl(-5.5)}, Class: "value"},
		AtomRow{Kind: "maxInclusive", Arg: YFloat(-0.5), Sat: []Lit{I(-1), Fl(-0.5)}, Viol: []Lit{I(0), Fl(-0.25)}, Class: "value"},
		AtomRow{Kind: "in", Arg: YSeq(YFloat(1.5), YFloat(2.5)), Sat: []Lit{Fl(1.5), Fl(2.5)}, Viol: []Lit{Fl(3.5), I(1), I(2)}, Class: "value", TableOnly: true, Finding: "c01-list-argument-fractional-number"},
		AtomRow{Kind: "in", Arg: YSeq(YStr("")), Sat: strs(""), Viol: strs("a", " "), Class: "value"},
		// bounds that need more than six decimals
		AtomRow{Kind: "minInclusive", Arg: YFloat(0.0000005), Sat: []Lit{Fl(0.0000005), I(1), Fl(0.000001)}, Viol: []Lit{I(0), Fl(0.0000004), I(-1)}, Class: "value"},
		AtomRow{Kind: "maxExclusive", Arg: YFloat(1.2345678), Sat: []Lit{Fl(1.2345677), I(1)}, Viol: []Lit{Fl(1.2345678), Fl(1.234568), I(2)}, Class: "value"},
		AtomRow{Kind: "minExclusive", Arg: YFloat(-0.00000025), Sat: []Lit{I(0), Fl(-0.0000002)}, Viol: []Lit{Fl(-0.00000025), Fl(-0.0000003), I(-1)}, Class: "value"},
		// arguments with characters that mean something to a formatter or to the policy language
		AtomRow{Kind: "in", Arg: YSeq(YStr("100%"), YStr("50%")), Sat: strs("100%", "50%"), Viol: strs("100", "%", "50%%"), Class: "value"},
		AtomRow{Kind: "pattern", Arg: YStr("^[0-9]+%$"), Sat: strs("5%", "100%"), Viol: strs("5", "%5", "5%%x"), Class: "value"},
		AtomRow{Kind: "containsSome", Arg: YSeq(YStr("a"), YStr("%s")), Set: []string{"a", "%s"}, Class: "set"},
		AtomRow{Kind: "containsAll", Arg: YSeq(YStr("100%"), YStr("a")), Set: []string{"100%", "a"}, Class: "set"},
		AtomRow{Kind: "containsSome", Arg: YSeq(YStr("b"), YStr("100%")), Set: []string{"b", "100%"}, Class: "set"},
	)
	return t
}

// Polarity bits.
const (
	Pos = 1
	Neg = 2
)

// Atom is one occurrence-identity of an atomic constraint in a formula. Each
// atom owns its property (and Prop2 for comparisons), so atoms are independent.
type Atom struct {
	ID    int    `json:"id"`
	Row   int    `json:"row"`  // index into AtomTable
	Prop  string `json:"prop"` // local name, e.g. "p3"
	Prop2 string `json:"prop2,omitempty"`
	Via   string `json:"via,omitempty"` // when set the constraint key is the path `ex.<Via> / ex.<Prop>`: values are those of the children
	Pol   int    `json:"pol"`           // polarity bits, filled by MarkPolarity
}

func (a *Atom) R() AtomRow { return AtomTable[a.Row] }

// NeedsSingle: the atom must see exactly one value per property for the
// classical reading and the translator's reading to coincide (DESIGN §5 C01, I1).
func (a *Atom) NeedsSingle() bool {
	r := a.R()
	switch r.Class {
	case "value":
		return a.Pol&Neg != 0
	case "cmp":
		if r.Kind == "equalsToProperty" || r.Kind == "disjointWithProperty" {
			return true
		}
		return a.Pol&Neg != 0
	}
	return false
}

// SetPool is the pool of values a set-kind atom's property draws from.
var SetPool = []Lit{S("a"), S("b"), S("c"), S("d"), I(1), I(7), S(""), S("100%")}

// CmpPool is the pool for comparison atoms.
var CmpPool = []Lit{I(1), I(2), I(3)}

func litIn(l Lit, pool []Lit) bool {
	for _, p := range pool {
		if p.Key() == l.Key() {
			return true
		}
	}
	return false
}

// EvalAtom decides the atom on a node from the node's actual values.
// ok=false means the values are outside the table (a generator defect).
func EvalAtom(a *Atom, g *Graph, n *Node) (truth bool, ok bool) {
	r := a.R()
	p := NS + a.Prop
	if a.Via != "" {
		// values reached through the path via/prop: a multiset over the children (kept as such for uniqueValues)
		var all []Val
		for _, c := range n.Children(NS + a.Via) {
			all = append(all, g.Nodes[c].Props[p]...)
		}
		if r.Class == "unique" {
			seen := map[string]bool{}
			for _, v := range all {
				k := "n"
				if v.IsNode() {
					k += itoa(v.Node)
				} else {
					k = v.Lit.Key()
				}
				if seen[k] {
					return false, true
				}
				seen[k] = true
			}
			return true, true
		}
		// every other kind sees the set of distinct values
		tmp := &Node{Props: map[string][]Val{}}
		for _, v := range all {
			tmp.AddVal(p, v)
		}
		n = tmp
	} else if r.Class == "unique" {
		return true, true // a directly held property is a set: never a duplicate
	}
	switch r.Class {
	case "value":
		for _, v := range n.Props[p] {
			if v.IsNode() {
				return false, false
			}
			switch {
			case litIn(*v.Lit, r.Sat):
			case litIn(*v.Lit, r.Viol):
				truth = true // mark violation seen
			default:
				return false, false
			}
		}
		return !truth, true
	case "count":
		c := len(n.Props[p]) // AddVal keeps values distinct
		switch r.Kind {
		case "minCount":
			return c >= r.N, true
		case "maxCount":
			return c <= r.N, true
		default:
			return c == r.N, true
		}
	case "set":
		have := map[string]bool{}
		for _, v := range n.Props[p] {
			if v.IsNode() {
				return false, false
			}
			have[v.Lit.AsString()] = true
		}
		if len(have) == 0 {
			return false, false // guarded by "property defined": outside the domain
		}
		hit := 0
		for _, s := range r.Set {
			if have[s] {
				hit++
			}
		}
		if r.Kind == "containsAll" {
			return hit == len(r.Set), true
		}
		return hit > 0, true
	case "cmp":
		as, bs := n.Lits(p), n.Lits(NS+a.Prop2)
		for _, x := range as {
			for _, y := range bs {
				if x.K != "i" || y.K != "i" {
					return false, false
				}
				var good bool
				switch r.Kind {
				case "lessThanProperty":
					good = x.I < y.I
				case "lessThanOrEqualsToProperty":
					good = x.I <= y.I
				case "equalsToProperty":
					good = x.I == y.I
				default:
					good = x.I != y.I
				}
				if !good {
					return false, true
				}
			}
		}
		return true, true
	}
	return false, false
}

// ---------------------------------------------------------------- formulas

// C is one constraint under a property key.
type C struct {
	Kind string `json:"kind"` // "atom", "nested", "atLeast", "atMost"
	Atom *Atom  `json:"atom,omitempty"`
	N    int    `json:"n,omitempty"`
	Body *F     `json:"body,omitempty"`
}

// PCEntry is one key of a propertyConstraints map.
type PCEntry struct {
	Prop  string   `json:"prop"`          // local name of the property (literal prop of the atoms, or edge)
	Key   string   `json:"key,omitempty"` // when set: the raw propertyConstraints key (a path expression) instead of ex.<Prop>
	Cs    []C      `json:"cs"`
	Extra []ExtraC `json:"extra,omitempty"` // further constraints printed verbatim (not evaluated by the reference model)
}

// ExtraC is a constraint outside the witness table (e.g. uniqueValues), used where only compilation matters.
type ExtraC struct {
	Kind string `json:"kind"`
	Arg  *Y     `json:"arg"`
}

// F is a formula.
type F struct {
	Op  string    `json:"op"` // "pc", "and", "or", "not", "if"
	Sub []*F      `json:"sub,omitempty"`
	PC  []PCEntry `json:"pc,omitempty"`
}

func And(fs ...*F) *F      { return &F{Op: "and", Sub: fs} }
func Or(fs ...*F) *F       { return &F{Op: "or", Sub: fs} }
func Not(f *F) *F          { return &F{Op: "not", Sub: []*F{f}} }
func If(c, t *F) *F        { return &F{Op: "if", Sub: []*F{c, t}} }
func IfElse(c, t, e *F) *F { return &F{Op: "if", Sub: []*F{c, t, e}} }
func AtomF(a *Atom) *F {
	return &F{Op: "pc", PC: []PCEntry{{Prop: a.Prop, Cs: []C{{Kind: "atom", Atom: a}}}}}
}
func Quant(kind, edge string, n int, body *F) *F {
	return &F{Op: "pc", PC: []PCEntry{{Prop: edge, Cs: []C{{Kind: kind, N: n, Body: body}}}}}
}

func (f *F) Clone() *F {
	if f == nil {
		return nil
	}
	c := &F{Op: f.Op}
	for _, s := range f.Sub {
		c.Sub = append(c.Sub, s.Clone())
	}
	for _, e := range f.PC {
		ne := PCEntry{Prop: e.Prop, Key: e.Key, Extra: e.Extra}
		for _, cc := range e.Cs {
			ne.Cs = append(ne.Cs, C{Kind: cc.Kind, Atom: cc.Atom, N: cc.N, Body: cc.Body.Clone()})
		}
		c.PC = append(c.PC, ne)
	}
	return c
}

// Atoms returns the distinct atoms of the formula (by ID), in ID order.
func (f *F) Atoms() []*Atom {
	seen := map[int]*Atom{}
	var walk func(*F)
	walk = func(x *F) {
		for _, s := range x.Sub {
			walk(s)
		}
		for _, e := range x.PC {
			for _, c := range e.Cs {
				if c.Atom != nil {
					seen[c.Atom.ID] = c.Atom
				}
				if c.Body != nil {
					walk(c.Body)
				}
			}
		}
	}
	walk(f)
	ids := make([]int, 0, len(seen))
	for id := range seen {
		ids = append(ids, id)
	}
	sort.Ints(ids)
	out := make([]*Atom, len(ids))
	for i, id := range ids {
		out[i] = seen[id]
	}
	return out
}

// Edges returns the edge property names used by quantified constraints.
func (f *F) Edges() []string {
	seen := map[string]bool{}
	var walk func(*F)
	walk = func(x *F) {
		for _, s := range x.Sub {
			walk(s)
		}
		for _, e := range x.PC {
			for _, c := range e.Cs {
				if c.Body != nil {
					seen[e.Prop] = true
					walk(c.Body)
				}
			}
		}
	}
	walk(f)
	out := make([]string, 0, len(seen))
	for e := range seen {
		out = append(out, e)
	}
	sort.Strings(out)
	return out
}

// MarkPolarity records on every atom the polarities it occurs in. The body of
// a quantified constraint always restarts at positive polarity: the translator
// evaluates the body un-negated and only flips the count test.
func (f *F) MarkPolarity(pol int) {
	flip := func(p int) int {
		q := 0
		if p&Pos != 0 {
			q |= Neg
		}
		if p&Neg != 0 {
			q |= Pos
		}
		return q
	}
	switch f.Op {
	case "and", "or":
		for _, s := range f.Sub {
			s.MarkPolarity(pol)
		}
	case "not":
		f.Sub[0].MarkPolarity(flip(pol))
	case "if":
		f.Sub[0].MarkPolarity(Pos | Neg)
		for _, s := range f.Sub[1:] {
			s.MarkPolarity(pol)
		}
	case "pc":
		for _, e := range f.PC {
			for _, c := range e.Cs {
				if c.Atom != nil {
					c.Atom.Pol |= pol
				}
				if c.Body != nil {
					c.Body.MarkPolarity(Pos)
				}
			}
		}
	}
}

// Stats describes the shape of a formula (for labels).
type FStats struct {
	Connectives, Quantifiers, Atoms, Depth                         int
	NotOverIte, OrOverConj, NestedUnderNot, CountGt1UnderNeg, Wide bool
}

func (f *F) Stats() FStats {
	var st FStats
	var walk func(x *F, depth int, underNot bool)
	walk = func(x *F, depth int, underNot bool) {
		if depth > st.Depth {
			st.Depth = depth
		}
		switch x.Op {
		case "and", "or", "not", "if":
			st.Connectives++
		}
		if len(x.Sub) >= 3 {
			st.Wide = true
		}
		if x.Op == "not" && x.Sub[0].Op == "if" {
			st.NotOverIte = true
		}
		if x.Op == "or" {
			conj := 0
			for _, s := range x.Sub {
				if s.Op == "and" || (s.Op == "pc" && pcSize(s) >= 2) {
					conj++
				}
			}
			if conj >= 2 {
				st.OrOverConj = true
			}
		}
		for _, s := range x.Sub {
			walk(s, depth+1, underNot != (x.Op == "not") || (x.Op == "if" && s == x.Sub[0]))
		}
		for _, e := range x.PC {
			for _, c := range e.Cs {
				if c.Atom != nil {
					st.Atoms++
				}
				if c.Body != nil {
					st.Quantifiers++
					if underNot {
						st.NestedUnderNot = true
						if c.N > 1 {
							st.CountGt1UnderNeg = true
						}
					}
					walk(c.Body, depth+1, false)
				}
			}
		}
	}
	walk(f, 1, false)
	return st
}

func pcSize(f *F) int {
	n := 0
	for _, e := range f.PC {
		n += len(e.Cs)
	}
	return n
}

// Eval is the classical evaluator. ok=false: some atom met values outside its table.
func Eval(f *F, g *Graph, node int) (truth bool, ok bool) {
	ok = true
	var ev func(x *F, n int) bool
	ev = func(x *F, n int) bool {
		switch x.Op {
		case "and":
			r := true
			for _, s := range x.Sub {
				if !ev(s, n) {
					r = false
				}
			}
			return r
		case "or":
			r := false
			for _, s := range x.Sub {
				if ev(s, n) {
					r = true
				}
			}
			return r
		case "not":
			return !ev(x.Sub[0], n)
		case "if":
			c := ev(x.Sub[0], n)
			t := ev(x.Sub[1], n)
			if len(x.Sub) == 3 {
				e := ev(x.Sub[2], n)
				if c {
					return t
				}
				return e
			}
			return !c || t
		case "pc":
			r := true
			for _, e := range x.PC {
				for _, c := range e.Cs {
					var v bool
					switch c.Kind {
					case "atom":
						tv, aok := EvalAtom(c.Atom, g, g.Nodes[n])
						if !aok {
							ok = false
						}
						v = tv
					default:
						sat := 0
						kids := g.Nodes[n].Children(NS + e.Prop)
						for _, k := range kids {
							if ev(c.Body, k) {
								sat++
							}
						}
						switch c.Kind {
						case "nested":
							v = sat == len(kids)
						case "atLeast":
							v = sat >= c.N
						case "atMost":
							v = sat <= c.N
						}
					}
					if !v {
						r = false
					}
				}
			}
			return r
		}
		panic("bad op " + x.Op)
	}
	truth = ev(f, node)
	return
}

// ToY renders the formula as the mapping holding its single top-level key(s).
func (f *F) ToY() *Y {
	m := YMap()
	switch f.Op {
	case "and", "or":
		seq := YSeq()
		for _, s := range f.Sub {
			seq.Items = append(seq.Items, s.ToY())
		}
		m.Set(f.Op, seq)
	case "not":
		m.Set("not", f.Sub[0].ToY())
	case "if":
		m.Set("if", f.Sub[0].ToY())
		m.Set("then", f.Sub[1].ToY())
		if len(f.Sub) == 3 {
			m.Set("else", f.Sub[2].ToY())
		}
	case "pc":
		pc := YMap()
		for _, e := range f.PC {
			key := "ex." + e.Prop
			if e.Key != "" {
				key = e.Key
			}
			for _, c := range e.Cs {
				if c.Atom != nil && c.Atom.Via != "" && e.Key == "" {
					key = "ex." + c.Atom.Via + " / ex." + e.Prop
				}
			}
			cm := pc.Get(key)
			if cm == nil {
				cm = YMap()
				pc.Set(key, cm)
			}
			for _, x := range e.Extra {
				cm.Set(x.Kind, x.Arg.Clone())
			}
			for _, c := range e.Cs {
				switch c.Kind {
				case "atom":
					r := c.Atom.R()
					if r.Class == "cmp" {
						cm.Set(r.Kind, YStr("ex."+c.Atom.Prop2))
					} else {
						cm.Set(r.Kind, r.Arg.Clone())
					}
				case "nested":
					cm.Set("nested", c.Body.ToY())
				default:
					q := YMap()
					q.Set("count", YInt(int64(c.N)))
					q.Set("validation", c.Body.ToY())
					cm.Set(c.Kind, q)
				}
			}
		}
		m.Set("propertyConstraints", pc)
	}
	return m
}

func (f *F) String() string {
	switch f.Op {
	case "and", "or":
		parts := make([]string, len(f.Sub))
		for i, s := range f.Sub {
			parts[i] = s.String()
		}
		return f.Op + "(" + strings.Join(parts, ", ") + ")"
	case "not":
		return "not(" + f.Sub[0].String() + ")"
	case "if":
		if len(f.Sub) == 3 {
			return fmt.Sprintf("ite(%s, %s, %s)", f.Sub[0], f.Sub[1], f.Sub[2])
		}
		return fmt.Sprintf("if(%s, %s)", f.Sub[0], f.Sub[1])
	default:
		var parts []string
		for _, e := range f.PC {
			for _, c := range e.Cs {
				switch c.Kind {
				case "atom":
					parts = append(parts, fmt.Sprintf("A%d:%s(%s)", c.Atom.ID, c.Atom.R().Kind, e.Prop))
				case "nested":
					parts = append(parts, fmt.Sprintf("nested[%s](%s)", e.Prop, c.Body))
				default:
					parts = append(parts, fmt.Sprintf("%s%d[%s](%s)", c.Kind, c.N, e.Prop, c.Body))
				}
			}
		}
		if len(parts) == 1 {
			return parts[0]
		}
		return "pc(" + strings.Join(parts, ", ") + ")"
	}
}

// ---------------------------------------------------------------- profiles

// Validation is one entry of `validations`.
type Validation struct {
	Name    string `json:"name"`
	Level   string `json:"level"` // "violation", "warning", "info", or "" (defined but not listed)
	Class   string `json:"class"` // compact target class, e.g. "ex.Test"
	Message string `json:"message,omitempty"`
	Body    *F     `json:"body"`
}

// Profile is a declarative profile.
type Profile struct {
	Name        string       `json:"name"`
	Validations []Validation `json:"validations"`
	// Extra names listed under a level without a definition.
	Undefined map[string][]string `json:"undefined,omitempty"`
	// EmptyLevels lists levels to emit as an empty list even without validations.
	EmptyLevels []string `json:"empty_levels,omitempty"`
	// ListOrder, when set for a level, is the exact order of the names in that level's list.
	ListOrder map[string][]string `json:"list_order,omitempty"`
}

// ToY builds the YAML tree in canonical key order.
func (p *Profile) ToY() *Y {
	doc := YMap()
	doc.Set("profile", YStr(p.Name))
	pf := YMap()
	pf.Set("ex", YStr(NS))
	doc.Set("prefixes", pf)
	for _, lvl := range []string{"violation", "warning", "info"} {
		seq := YSeq()
		for _, v := range p.Validations {
			if v.Level == lvl {
				seq.Items = append(seq.Items, YStr(v.Name))
			}
		}
		for _, u := range p.Undefined[lvl] {
			seq.Items = append(seq.Items, YStr(u))
		}
		if order, ok := p.ListOrder[lvl]; ok && len(order) == len(seq.Items) {
			seq = YSeq()
			for _, name := range order {
				seq.Items = append(seq.Items, YStr(name))
			}
		}
		empty := false
		for _, e := range p.EmptyLevels {
			if e == lvl {
				empty = true
			}
		}
		if len(seq.Items) > 0 || empty {
			doc.Set(lvl, seq)
		}
	}
	vs := YMap()
	for _, v := range p.Validations {
		vm := YMap()
		vm.Set("targetClass", YStr(v.Class))
		if v.Message != "" {
			vm.Set("message", YStr(v.Message))
		}
		body := v.Body.ToY()
		for i, k := range body.Keys {
			vm.Set(k, body.Vals[i])
		}
		vs.Set(v.Name, vm)
	}
	doc.Set("validations", vs)
	return doc
}

// Branches estimates how many failure branches (rule bodies) the translator emits for the formula and for its
// negation: and = sum, or = product, negation swaps, if/then/else as two implications. Quantifier bodies are
// translated separately; their own counts are added to total. Used by generators to keep one case's compile and
// evaluation time bounded (the expansion is multiplicative).
func (f *F) Branches() (fail, failNeg, total int) {
	const cap = 1 << 20
	clamp := func(x int) int {
		if x > cap || x < 0 {
			return cap
		}
		return x
	}
	switch f.Op {
	case "pc":
		fail, failNeg = 0, 1
		for _, e := range f.PC {
			fail += len(e.Extra) // companion constraints are conjuncts too
			for _, c := range e.Cs {
				fail++
				if c.Body != nil {
					bf, _, bt := c.Body.Branches()
					total = clamp(total + bf + bt)
				}
			}
		}
		if fail == 0 {
			fail = 1
		}
	case "and":
		fail, failNeg = 0, 1
		for _, s := range f.Sub {
			a, b, t := s.Branches()
			fail = clamp(fail + a)
			failNeg = clamp(failNeg * b)
			total = clamp(total + t)
		}
	case "or":
		fail, failNeg = 1, 0
		for _, s := range f.Sub {
			a, b, t := s.Branches()
			fail = clamp(fail * a)
			failNeg = clamp(failNeg + b)
			total = clamp(total + t)
		}
	case "not":
		a, b, t := f.Sub[0].Branches()
		fail, failNeg, total = b, a, t
	case "if":
		cf, cn, ct := f.Sub[0].Branches()
		tf, tn, tt := f.Sub[1].Branches()
		total = clamp(ct + tt)
		if len(f.Sub) == 3 {
			ef, en, et := f.Sub[2].Branches()
			total = clamp(total + et)
			fail = clamp(cn*tf + cf*ef)
			failNeg = clamp((cf + tn) * (cn + en))
		} else {
			fail = clamp(cn * tf)
			failNeg = clamp(cf + tn)
		}
	}
	return fail, failNeg, clamp(total)
}

// Cost is the estimated number of rule bodies for the formula as a validation body.
func (f *F) Cost() int {
	a, _, t := f.Branches()
	return a + t
}
