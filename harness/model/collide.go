package model

import (
	"encoding"
	"hash"
	"hash/adler32"
	"hash/crc32"
	"hash/fnv"
	"strings"
)

// Weak fingerprints. A cache keyed by a short checksum of a text (and perhaps its length) instead of the text is a
// realistic shortcut; two different documents that agree on it are then confused. Random documents never collide on
// 32 bits, so the pair is built on purpose: a trailing comment (YAML) or trailing white space pattern that changes
// nothing in what the document means is searched, birthday style, until both documents have the same length and the
// same checksum. 64-bit and cryptographic digests are out of reach and not attempted.

// Checksums lists the 32-bit checksums a collision can be built for.
var Checksums = []string{"crc32-ieee", "crc32-castagnoli", "fnv32", "fnv32a"}

func newChecksum(name string) hash.Hash32 {
	switch name {
	case "crc32-ieee":
		return crc32.NewIEEE()
	case "crc32-castagnoli":
		return crc32.New(crc32.MakeTable(crc32.Castagnoli))
	case "fnv32":
		return fnv.New32()
	case "fnv32a":
		return fnv.New32a()
	case "adler32":
		return adler32.New()
	}
	return nil
}

// Checksum computes the named checksum of s.
func Checksum(name, s string) uint32 {
	h := newChecksum(name)
	h.Write([]byte(s))
	return h.Sum32()
}

const yamlCommentAlphabet = "abcdefghijklmnopqrstuvwxyz012345"
const jsonSpaceAlphabet = " \t\n\r"

// collideSuffix spells i in `width` characters of the alphabet (a power of two in size); the two documents of a pair
// vary different positions (the second one reads the spelling backwards): variations at the same positions of equally
// long texts cancel out in linear checksums and never meet.
func collideSuffix(i int, backwards bool, alphabet string, width int) []byte {
	bits := 0
	for 1<<bits < len(alphabet) {
		bits++
	}
	b := make([]byte, width)
	for k := range b {
		pos := k
		if backwards {
			pos = width - 1 - k
		}
		b[pos] = alphabet[i&(len(alphabet)-1)]
		i >>= bits
	}
	return b
}

// Collide appends to each of two YAML documents a comment line so that the results have equal length and equal
// checksum. ok=false when no collision was found within the search bound.
func Collide(a, b, checksum, lead string) (a2, b2 string, ok bool) {
	return collide(a, b, checksum, lead, yamlCommentAlphabet, 8)
}

// CollideJSON does the same for two JSON documents with trailing white space (insignificant after a JSON value).
func CollideJSON(a, b, checksum string) (a2, b2 string, ok bool) {
	return collide(a, b, checksum, "", jsonSpaceAlphabet, 20)
}

func collide(a, b, checksum, lead, alphabet string, width int) (a2, b2 string, ok bool) {
	h := newChecksum(checksum)
	if h == nil {
		return a, b, false
	}
	if !strings.HasSuffix(a, "\n") {
		a += "\n"
	}
	if !strings.HasSuffix(b, "\n") {
		b += "\n"
	}
	pa, pb := a+lead, b+lead
	if d := len(pb) - len(pa); d > 0 {
		pa += strings.Repeat(alphabet[:1], d)
	} else if d < 0 {
		pb += strings.Repeat(alphabet[:1], -d)
	}
	state := func(prefix string) []byte {
		h.Reset()
		h.Write([]byte(prefix))
		st, _ := h.(encoding.BinaryMarshaler).MarshalBinary()
		return st
	}
	sum := func(st []byte, suffix []byte) uint32 {
		_ = h.(encoding.BinaryUnmarshaler).UnmarshalBinary(st)
		h.Write(suffix)
		h.Write([]byte("\n"))
		return h.Sum32()
	}
	const n = 1 << 17
	sa := state(pa)
	seen := make(map[uint32]int, n)
	for i := 0; i < n; i++ {
		seen[sum(sa, collideSuffix(i, false, alphabet, width))] = i
	}
	sb := state(pb)
	for j := 0; j < 1<<20; j++ {
		if i, hit := seen[sum(sb, collideSuffix(j, true, alphabet, width))]; hit {
			return pa + string(collideSuffix(i, false, alphabet, width)) + "\n", pb + string(collideSuffix(j, true, alphabet, width)) + "\n", true
		}
	}
	return a, b, false
}
