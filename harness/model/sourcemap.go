package model

import "fmt"

const (
	SM  = "http://a.ml/vocabularies/document-source-maps#"
	DOC = "http://a.ml/vocabularies/document#"
)

// Range is a lexical range [(l1,c1)-(l2,c2)].
type Range struct {
	L1, C1, L2, C2 int64
}

func (r Range) String() string {
	return fmt.Sprintf("[(%d,%d)-(%d,%d)]", r.L1, r.C1, r.L2, r.C2)
}

// LexEntry is one lexical entry of a node's source map.
type LexEntry struct {
	NodeLevel bool   `json:"node_level"` // element = the node id; otherwise element = Element (a property IRI or a foreign id)
	Element   string `json:"element,omitempty"`
	Range     Range  `json:"range"`
	// For > 0: the entry is the node-level entry of node For-1, but it is stored in the source map of the node
	// that owns this list (the index is keyed by the element, whichever SourceMap node holds the entry)
	For int `json:"for,omitempty"`
	// Unreadable marks a member of the list that is not a well-formed lexical entry: "element-is-a-link" (the
	// element written as a node reference instead of a string), "no-element", "empty-entry" (a link to an entry node
	// nothing is said about). A validator may refuse such a document; if it answers, the well-formed entries count.
	Unreadable string `json:"unreadable,omitempty"`
}

// HasUnreadable reports whether some member list holds an unreadable member.
func (s *SourceMaps) HasUnreadable() bool {
	if s == nil {
		return false
	}
	for _, es := range s.Entries {
		for _, e := range es {
			if e.Unreadable != "" {
				return true
			}
		}
	}
	return false
}

// SourceMaps describes the lexical information to attach to a graph.
type SourceMaps struct {
	Root    string             `json:"root"`              // rootLocation
	Entries map[int][]LexEntry `json:"entries,omitempty"` // node index -> entries, in order
	Files   []FileLoc          `json:"files,omitempty"`   // additional locations
	NoBase  bool               `json:"no_base,omitempty"` // omit the BaseUnitSourceInformation node (the uri is then unspecified; only differential checks use this)
	// Conflicts adds a second SourceMap node with a different range for every node-level entry and a second
	// BaseUnitSourceInformation node with another root: which one wins is unspecified, but it must not vary from run to run
	Conflicts bool `json:"conflicts,omitempty"`
}

// FileLoc assigns nodes to another source file.
type FileLoc struct {
	Location string `json:"location"`
	Nodes    []int  `json:"nodes"`
}

// NodeRange returns the node-level range recorded for node i, if any.
func (s *SourceMaps) NodeRange(i int) (Range, bool) {
	if s == nil {
		return Range{}, false
	}
	for _, e := range s.Entries[i] {
		if e.NodeLevel && e.Unreadable == "" {
			return e.Range, true
		}
	}
	for _, es := range s.Entries {
		for _, e := range es {
			if e.For == i+1 && e.Unreadable == "" {
				return e.Range, true
			}
		}
	}
	return Range{}, false
}

// URI returns the file node i was declared in.
func (s *SourceMaps) URI(i int) string {
	for _, f := range s.Files {
		for _, n := range f.Nodes {
			if n == i {
				return f.Location
			}
		}
	}
	return s.Root
}

// Attach returns a copy of g with the source-map nodes appended (AMF's shape:
// node -> sources -> SourceMap -> lexical entries {element, value};
// BaseUnitSourceInformation {rootLocation, additionalLocations -> {location, elements}}).
func (s *SourceMaps) Attach(g *Graph) *Graph {
	out := &Graph{Bulk: g.Bulk, BulkBlank: g.BulkBlank}
	for _, n := range g.Nodes {
		c := &Node{ID: n.ID, Types: append([]string(nil), n.Types...), Props: map[string][]Val{}}
		for k, v := range n.Props {
			c.Props[k] = append([]Val(nil), v...)
		}
		out.Nodes = append(out.Nodes, c)
	}
	if s == nil {
		return out
	}
	for i := range g.Nodes {
		es := s.Entries[i]
		if len(es) == 0 {
			continue
		}
		smi := len(out.Nodes)
		out.Nodes = append(out.Nodes, &Node{ID: g.Nodes[i].ID + "/source-map", Types: []string{SM + "SourceMap"}, Props: map[string][]Val{}})
		out.Nodes[i].AddVal(SM+"sources", NV(smi))
		for k, e := range es {
			li := len(out.Nodes)
			el := e.Element
			if e.NodeLevel {
				el = g.Nodes[i].ID
			}
			if e.For > 0 {
				el = g.Nodes[e.For-1].ID
			}
			ln := &Node{ID: fmt.Sprintf("%s/source-map/lexical/element_%d", g.Nodes[i].ID, k), Props: map[string][]Val{}}
			switch e.Unreadable {
			case "element-is-a-link":
				ln.AddVal(SM+"element", NV(i))
				ln.AddVal(SM+"value", LV(S(e.Range.String())))
			case "no-element":
				ln.AddVal(SM+"value", LV(S(e.Range.String())))
			case "empty-entry":
			default:
				ln.AddVal(SM+"element", LV(S(el)))
				ln.AddVal(SM+"value", LV(S(e.Range.String())))
			}
			out.Nodes = append(out.Nodes, ln)
			out.Nodes[smi].AddVal(SM+"lexical", NV(li))
		}
	}
	if s.Conflicts {
		for i := range g.Nodes {
			if r, ok := s.NodeRange(i); ok {
				smi := len(out.Nodes)
				out.Nodes = append(out.Nodes, &Node{ID: g.Nodes[i].ID + "/source-map-b", Types: []string{SM + "SourceMap"}, Props: map[string][]Val{}})
				li := len(out.Nodes)
				ln := &Node{ID: g.Nodes[i].ID + "/source-map-b/lexical/element_0", Props: map[string][]Val{}}
				ln.AddVal(SM+"element", LV(S(g.Nodes[i].ID)))
				ln.AddVal(SM+"value", LV(S(Range{r.L1 + 100, r.C1 + 1, r.L2 + 100, r.C2 + 1}.String())))
				out.Nodes = append(out.Nodes, ln)
				out.Nodes[smi].AddVal(SM+"lexical", NV(li))
			}
		}
		if !s.NoBase {
			bn := &Node{ID: "amf://id/BaseUnitSourceInformation-b", Types: []string{DOC + "BaseUnitSourceInformation"}, Props: map[string][]Val{}}
			bn.AddVal(DOC+"rootLocation", LV(S(s.Root+".other")))
			out.Nodes = append(out.Nodes, bn)
		}
	}
	if s.NoBase {
		return out
	}
	bi := len(out.Nodes)
	bn := &Node{ID: "amf://id/BaseUnitSourceInformation", Types: []string{DOC + "BaseUnitSourceInformation"}, Props: map[string][]Val{}}
	bn.AddVal(DOC+"rootLocation", LV(S(s.Root)))
	out.Nodes = append(out.Nodes, bn)
	for k, f := range s.Files {
		fi := len(out.Nodes)
		fn := &Node{ID: fmt.Sprintf("amf://id/BaseUnitSourceInformation/location_%d", k), Types: []string{DOC + "LocationInformation"}, Props: map[string][]Val{}}
		fn.AddVal(DOC+"location", LV(S(f.Location)))
		for _, n := range f.Nodes {
			fn.AddVal(DOC+"elements", NV(n))
		}
		out.Nodes = append(out.Nodes, fn)
		out.Nodes[bi].AddVal(DOC+"additionalLocations", NV(fi))
	}
	return out
}
