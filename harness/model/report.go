package model

import (
	"encoding/json"
	"fmt"
	"sort"
	"strings"
)

// Result is one validation result of a report.
type Result struct {
	Severity string // "Violation", "Warning", "Info" (suffix of the IRI) or the raw value
	Shape    string
	Focus    string
	Message  string
	Raw      map[string]any
}

// Report is the observed part of a report.
type Report struct {
	Conforms    bool
	ProfileName string
	DateCreated *string
	HasResult   bool // the "result" key is present
	Results     []Result
	Context     map[string]any
	Root        map[string]any // the dialect instance
	Node        map[string]any // the validation-report node
}

// ParseReport reads a report produced by the validator.
func ParseReport(text string) (*Report, error) {
	var doc any
	dec := json.NewDecoder(strings.NewReader(text))
	dec.UseNumber()
	if err := dec.Decode(&doc); err != nil {
		return nil, fmt.Errorf("report is not JSON: %v", err)
	}
	arr, ok := doc.([]any)
	if !ok || len(arr) != 1 {
		return nil, fmt.Errorf("report is not an array of exactly one object")
	}
	root, ok := arr[0].(map[string]any)
	if !ok {
		return nil, fmt.Errorf("report root is not an object")
	}
	enc, ok := root["doc:encodes"].([]any)
	if !ok || len(enc) != 1 {
		return nil, fmt.Errorf("doc:encodes is not a one-element array")
	}
	node, ok := enc[0].(map[string]any)
	if !ok {
		return nil, fmt.Errorf("encoded node is not an object")
	}
	r := &Report{Root: root, Node: node}
	if c, ok := root["@context"].(map[string]any); ok {
		r.Context = c
	}
	c, ok := node["conforms"].(bool)
	if !ok {
		return nil, fmt.Errorf("conforms missing or not boolean")
	}
	r.Conforms = c
	pn, ok := node["profileName"].(string)
	if !ok {
		return nil, fmt.Errorf("profileName missing or not a string")
	}
	r.ProfileName = pn
	if d, ok := node["dateCreated"]; ok {
		ds, ok := d.(string)
		if !ok {
			return nil, fmt.Errorf("dateCreated not a string")
		}
		r.DateCreated = &ds
	}
	if res, ok := node["result"]; ok {
		r.HasResult = true
		list, ok := res.([]any)
		if !ok {
			return nil, fmt.Errorf("result is not a list")
		}
		for _, e := range list {
			m, ok := e.(map[string]any)
			if !ok {
				return nil, fmt.Errorf("result entry is not an object")
			}
			x := Result{Raw: m}
			x.Severity, _ = m["resultSeverity"].(string)
			x.Severity = strings.TrimPrefix(x.Severity, "http://www.w3.org/ns/shacl#")
			x.Shape, _ = m["sourceShapeName"].(string)
			x.Focus, _ = m["focusNode"].(string)
			x.Message, _ = m["resultMessage"].(string)
			r.Results = append(r.Results, x)
		}
	}
	return r, nil
}

// Triples returns the sorted set of "severity|shape|focus" strings.
func (r *Report) Triples() []string {
	set := map[string]bool{}
	for _, x := range r.Results {
		set[x.Severity+"|"+x.Shape+"|"+x.Focus] = true
	}
	return sortedKeys(set)
}

// Quads adds the message.
func (r *Report) Quads() []string {
	set := map[string]bool{}
	for _, x := range r.Results {
		set[x.Severity+"|"+x.Shape+"|"+x.Focus+"|"+x.Message] = true
	}
	return sortedKeys(set)
}

// FocusSet returns the sorted set of focus nodes reported for a shape.
func (r *Report) FocusSet(shape string) []string {
	set := map[string]bool{}
	for _, x := range r.Results {
		if x.Shape == shape {
			set[x.Focus] = true
		}
	}
	return sortedKeys(set)
}

func sortedKeys(m map[string]bool) []string {
	out := make([]string, 0, len(m))
	for k := range m {
		out = append(out, k)
	}
	sort.Strings(out)
	return out
}

// EqualStrings compares two sorted string slices.
func EqualStrings(a, b []string) bool {
	if len(a) != len(b) {
		return false
	}
	for i := range a {
		if a[i] != b[i] {
			return false
		}
	}
	return true
}

// Canon returns a canonical JSON rendering in which every array of objects is
// sorted by the canonical rendering of its elements after dropping "@id" keys
// (report ids are positional). Used for multiset comparison of reports.
func Canon(v any) string {
	b, _ := json.Marshal(canon(v))
	return string(b)
}

func canon(v any) any {
	switch x := v.(type) {
	case map[string]any:
		m := map[string]any{}
		for k, e := range x {
			if k == "@id" {
				continue
			}
			m[k] = canon(e)
		}
		return m
	case []any:
		items := make([]any, len(x))
		keys := make([]string, len(x))
		allObj := true
		for i, e := range x {
			items[i] = canon(e)
			if _, ok := e.(map[string]any); !ok {
				allObj = false
			}
			b, _ := json.Marshal(items[i])
			keys[i] = string(b)
		}
		if allObj {
			idx := make([]int, len(x))
			for i := range idx {
				idx[i] = i
			}
			sort.SliceStable(idx, func(a, b int) bool { return keys[idx[a]] < keys[idx[b]] })
			out := make([]any, len(x))
			for i, j := range idx {
				out[i] = items[j]
			}
			return out
		}
		return items
	default:
		return v
	}
}

// CanonReport parses a report and returns its multiset-canonical form.
func CanonReport(text string) (string, error) {
	var doc any
	dec := json.NewDecoder(strings.NewReader(text))
	dec.UseNumber()
	if err := dec.Decode(&doc); err != nil {
		return "", err
	}
	return Canon(doc), nil
}
