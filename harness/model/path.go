package model

import (
	"sort"
	"strings"
)

// P is a property path.
type P struct {
	Kind string `json:"kind"`           // "pred", "type", "seq", "alt"
	Name string `json:"name,omitempty"` // local name for pred (edge or literal property), e.g. "e0"
	Inv  bool   `json:"inv,omitempty"`
	Sub  []*P   `json:"sub,omitempty"`
}

func Pred(name string, inv bool) *P { return &P{Kind: "pred", Name: name, Inv: inv} }
func TypeStep() *P                  { return &P{Kind: "type"} }
func Ext(name string, inv bool) *P  { return &P{Kind: "ext", Name: name, Inv: inv} }
func Seq(ps ...*P) *P               { return &P{Kind: "seq", Sub: ps} }
func Alt(ps ...*P) *P               { return &P{Kind: "alt", Sub: ps} }

// Leaves counts predicate/@type leaves; Ops counts operators (/, |, ^).
func (p *P) Leaves() int {
	if p.Kind == "pred" || p.Kind == "type" || p.Kind == "ext" {
		return 1
	}
	n := 0
	for _, s := range p.Sub {
		n += s.Leaves()
	}
	return n
}

func (p *P) Ops() int {
	switch p.Kind {
	case "pred", "ext":
		if p.Inv {
			return 1
		}
		return 0
	case "type":
		return 0
	}
	n := len(p.Sub) - 1
	for _, s := range p.Sub {
		n += s.Ops()
	}
	return n
}

// PrintStyle supplies the free choices of the printer; each is called at a
// choice point with the number of alternatives and returns an index.
type PrintStyle func(n int) int

// Print renders the path in the documented grammar (`|` binds tighter than `/`).
// style picks whitespace and redundant parentheses; nil = canonical form.
func (p *P) Print(style PrintStyle) string {
	if style == nil {
		style = func(int) int { return 0 }
	}
	ws := func(min int) string {
		switch style(4) {
		case 1:
			return " "
		case 2:
			return "  "
		case 3:
			return " \t"
		}
		if min > 0 {
			return " "
		}
		return ""
	}
	var pr func(x *P, ctx string) string
	pr = func(x *P, ctx string) string {
		var s string
		switch x.Kind {
		case "pred":
			s = "ex." + x.Name
			if x.Inv {
				if style(3) == 1 {
					s += " "
				}
				s += "^"
			}
		case "type":
			s = "@type"
		case "ext":
			s = "apiExt." + x.Name
			if x.Inv {
				if style(3) == 1 {
					s += " "
				}
				s += "^"
			}
		case "alt":
			parts := make([]string, len(x.Sub))
			for i, c := range x.Sub {
				parts[i] = pr(c, "alt")
			}
			s = parts[0]
			for _, q := range parts[1:] {
				s += ws(0) + "|" + ws(0) + q
			}
			if ctx == "alt" { // keep the grouping visible
				return "(" + ws(0) + s + ws(0) + ")"
			}
		case "seq":
			parts := make([]string, len(x.Sub))
			for i, c := range x.Sub {
				parts[i] = pr(c, "seq")
			}
			s = parts[0]
			for _, q := range parts[1:] {
				s += ws(1) + "/" + ws(0) + q
			}
			if ctx == "alt" || ctx == "seq" {
				return "(" + ws(0) + s + ws(0) + ")"
			}
		}
		if style(5) == 1 { // redundant parentheses
			return "(" + ws(0) + s + ws(0) + ")"
		}
		return s
	}
	return pr(p, "top")
}

// ---------------------------------------------------------------- denotation

// PVal is a value reached by a path: a node (by index) or a literal.
type PVal struct {
	Node int
	Lit  *Lit
	// Final records how the last step produced the value: "fwd" (object of a
	// predicate), "inv" (subject found backwards), "type".
	Final string
}

func (v PVal) Key() string {
	if v.Lit != nil {
		return "L" + v.Lit.Key()
	}
	return "N" + itoa(v.Node)
}

func itoa(i int) string {
	if i == 0 {
		return "0"
	}
	neg := i < 0
	if neg {
		i = -i
	}
	var b []byte
	for i > 0 {
		b = append([]byte{byte('0' + i%10)}, b...)
		i /= 10
	}
	if neg {
		b = append([]byte{'-'}, b...)
	}
	return string(b)
}

// Reached is one value of a denotation with the final-step kinds of all routes to it.
type Reached struct {
	Val    PVal
	Finals map[string]bool
}

func (p *P) eval(g *Graph, from []int) map[string]*Reached {
	out := map[string]*Reached{}
	add := func(v PVal) {
		k := v.Key()
		r, ok := out[k]
		if !ok {
			r = &Reached{Val: v, Finals: map[string]bool{}}
			out[k] = r
		}
		r.Finals[v.Final] = true
	}
	switch p.Kind {
	case "pred":
		if p.Inv {
			for _, n := range from {
				for mi, mnode := range g.Nodes {
					for _, v := range mnode.Props[NS+p.Name] {
						if v.IsNode() && v.Node == n {
							add(PVal{Node: mi, Final: "inv"})
						}
					}
				}
			}
		} else {
			for _, n := range from {
				for _, v := range g.Nodes[n].Props[NS+p.Name] {
					if v.IsNode() {
						add(PVal{Node: v.Node, Final: "fwd"})
					} else {
						l := *v.Lit
						add(PVal{Lit: &l, Final: "fwd"})
					}
				}
			}
		}
	case "type":
		for _, n := range from {
			for _, t := range g.Nodes[n].Types {
				l := S(t)
				add(PVal{Lit: &l, Final: "type"})
			}
		}
	case "ext":
		// custom domain property: node --customDomainProperties--> L, node --<id of L>--> extension node named Name
		if !p.Inv {
			for _, n := range from {
				for _, l := range g.Nodes[n].Children(DOC + "customDomainProperties") {
					vals := g.Nodes[n].Props[g.Nodes[l].ID]
					if len(vals) != 1 || !vals[0].IsNode() {
						continue
					}
					if ExtensionName(g.Nodes[vals[0].Node]) == p.Name {
						add(PVal{Node: vals[0].Node, Final: "ext"})
					}
				}
			}
		} else {
			for _, o := range from {
				if ExtensionName(g.Nodes[o]) != p.Name {
					continue
				}
				for mi, mnode := range g.Nodes {
					for _, vals := range mnode.Props {
						if len(vals) == 1 && vals[0].IsNode() && vals[0].Node == o {
							add(PVal{Node: mi, Final: "inv"})
						}
					}
				}
			}
		}
	case "alt":
		for _, c := range p.Sub {
			for k, r := range c.eval(g, from) {
				if cur, ok := out[k]; ok {
					for f := range r.Finals {
						cur.Finals[f] = true
					}
				} else {
					out[k] = r
				}
			}
		}
	case "seq":
		cur := from
		for i, c := range p.Sub {
			last := c.eval(g, cur)
			if i == len(p.Sub)-1 {
				return last
			}
			cur = nil
			for _, r := range last {
				if r.Val.Lit == nil { // only nodes continue to the next step
					cur = append(cur, r.Val.Node)
				}
			}
			sort.Ints(cur)
		}
	}
	return out
}

const CoreNS = "http://a.ml/vocabularies/core#"

// ExtensionName returns the single core:extensionName of a node ("" when absent or not a single string).
func ExtensionName(n *Node) string {
	ls := n.Lits(CoreNS + "extensionName")
	if len(ls) == 1 && len(n.Props[CoreNS+"extensionName"]) == 1 && ls[0].K == "s" {
		return ls[0].S
	}
	return ""
}

// AttachExtension links node n to extension node x through a fresh custom-domain-property node (AMF's shape).
func (g *Graph) AttachExtension(n, x int, name string) {
	l := g.Add(DOC + "DomainProperty")
	g.Nodes[n].AddVal(DOC+"customDomainProperties", NV(l))
	g.Nodes[n].AddVal(g.Nodes[l].ID, NV(x))
	if ExtensionName(g.Nodes[x]) == "" {
		g.Nodes[x].AddVal(CoreNS+"extensionName", LV(S(name)))
	}
}

// Denote computes the set of values reached from node start.
func (p *P) Denote(g *Graph, start int) map[string]*Reached {
	return p.eval(g, []int{start})
}

// ---------------------------------------------------------------- reference recogniser

// Verdicts of the reference recogniser.
const (
	Reject      = 0
	Accept      = 1
	Unspecified = 2 // the grammar file and the documentation disagree, or whitespace the grammar does not place
)

type refParser struct {
	s      string
	pos    int
	unspec bool // met a construct whose status is unspecified (modifier other than ^)
}

func isNS(c byte) bool {
	return c >= 'a' && c <= 'z' || c >= 'A' && c <= 'Z' || c >= '0' && c <= '9' || c == '_' || c == '-'
}
func isProp(c byte) bool { return isNS(c) || c == '.' || c == '\\' || c == '/' }
func isWS(c byte) bool   { return c == ' ' || c == '\n' || c == '\t' || c == '\r' }

func (r *refParser) ws() {
	for r.pos < len(r.s) && isWS(r.s[r.pos]) {
		r.pos++
	}
}

// expression <- term (_ "/" _ term)*
func (r *refParser) expression() (string, bool) {
	head, ok := r.term()
	if !ok {
		return "", false
	}
	parts := []string{head}
	for {
		save := r.pos
		r.ws()
		if r.pos < len(r.s) && r.s[r.pos] == '/' {
			r.pos++
			r.ws()
			t, ok := r.term()
			if ok {
				parts = append(parts, t)
				continue
			}
		}
		r.pos = save
		break
	}
	if len(parts) == 1 {
		return parts[0], true
	}
	return "(seq " + strings.Join(parts, " ") + ")", true
}

// term <- factor (_ "|" _ factor)*
func (r *refParser) term() (string, bool) {
	head, ok := r.factor()
	if !ok {
		return "", false
	}
	parts := []string{head}
	for {
		save := r.pos
		r.ws()
		if r.pos < len(r.s) && r.s[r.pos] == '|' {
			r.pos++
			r.ws()
			f, ok := r.factor()
			if ok {
				parts = append(parts, f)
				continue
			}
		}
		r.pos = save
		break
	}
	if len(parts) == 1 {
		return parts[0], true
	}
	return "(alt " + strings.Join(parts, " ") + ")", true
}

// factor <- "(" _ expression _ ")" / iri / "@type"
func (r *refParser) factor() (string, bool) {
	start := r.pos
	if r.pos < len(r.s) && r.s[r.pos] == '(' {
		r.pos++
		r.ws()
		if e, ok := r.expression(); ok {
			r.ws()
			if r.pos < len(r.s) && r.s[r.pos] == ')' {
				r.pos++
				return e, true
			}
		}
		r.pos = start
	}
	// iri <- ns+ "." prop+ _ mod?
	p := r.pos
	for p < len(r.s) && isNS(r.s[p]) {
		p++
	}
	if p > r.pos && p < len(r.s) && r.s[p] == '.' {
		q := p + 1
		for q < len(r.s) && isProp(r.s[q]) {
			q++
		}
		if q > p+1 {
			iri := r.s[r.pos:q]
			r.pos = q
			r.ws()
			if r.pos < len(r.s) {
				switch r.s[r.pos] {
				case '^':
					r.pos++
					return iri + "^", true
				case '*', '"', ',':
					r.pos++
					r.unspec = true
					return iri, true
				}
			}
			return iri, true
		}
	}
	r.pos = start
	if strings.HasPrefix(r.s[r.pos:], "@type") {
		r.pos += 5
		return "@type", true
	}
	return "", false
}

// RefParsePath decides a path string by the documented grammar with an
// end-of-input anchor and returns the structure as an S-expression.
func RefParsePath(s string) (verdict int, sexpr string) {
	if s == "" {
		return Unspecified, ""
	}
	trimmedLeft := strings.TrimLeft(s, " \n\t\r")
	leadingWS := len(trimmedLeft) != len(s)
	r := &refParser{s: trimmedLeft}
	e, ok := r.expression()
	if !ok {
		return Reject, ""
	}
	rest := r.s[r.pos:]
	if strings.TrimLeft(rest, " \n\t\r") != "" {
		return Reject, ""
	}
	if leadingWS || rest != "" || r.unspec {
		return Unspecified, e
	}
	return Accept, e
}
