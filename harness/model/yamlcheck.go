package model

import (
	"fmt"
	"reflect"

	"gopkg.in/yaml.v3"
)

// YAMLMatches parses text with yaml.v3 (a trusted dependency) and reports
// whether it denotes exactly the data of the tree. Used as generator self-check.
func YAMLMatches(text string, y *Y) error {
	var got any
	if err := yaml.Unmarshal([]byte(text), &got); err != nil {
		return fmt.Errorf("generated YAML does not parse: %v", err)
	}
	want := y.ToAny()
	if !reflect.DeepEqual(normYAML(got), normYAML(want)) {
		return fmt.Errorf("generated YAML denotes different data")
	}
	return nil
}

func normYAML(v any) any {
	switch x := v.(type) {
	case map[string]any:
		m := map[string]any{}
		for k, e := range x {
			m[k] = normYAML(e)
		}
		return m
	case map[any]any:
		m := map[string]any{}
		for k, e := range x {
			m[fmt.Sprint(k)] = normYAML(e)
		}
		return m
	case []any:
		out := make([]any, len(x))
		for i, e := range x {
			out[i] = normYAML(e)
		}
		return out
	case int64:
		return int(x)
	default:
		return v
	}
}

// ParseY reads YAML text into the ordered tree (mappings keep their key order).
func ParseY(text string) (*Y, error) {
	var n yaml.Node
	if err := yaml.Unmarshal([]byte(text), &n); err != nil {
		return nil, err
	}
	if len(n.Content) == 0 {
		return nil, fmt.Errorf("empty document")
	}
	return nodeToY(n.Content[0]), nil
}

func nodeToY(n *yaml.Node) *Y {
	switch n.Kind {
	case yaml.MappingNode:
		y := YMap()
		for i := 0; i+1 < len(n.Content); i += 2 {
			y.Set(n.Content[i].Value, nodeToY(n.Content[i+1]))
		}
		return y
	case yaml.SequenceNode:
		y := YSeq()
		for _, c := range n.Content {
			y.Items = append(y.Items, nodeToY(c))
		}
		return y
	case yaml.AliasNode:
		return nodeToY(n.Alias)
	}
	var v any
	_ = n.Decode(&v)
	switch x := v.(type) {
	case int:
		return YInt(int64(x))
	case int64:
		return YInt(x)
	case float64:
		return YFloat(x)
	case bool:
		return YBool(x)
	}
	return YStr(n.Value)
}
