package model

import (
	"fmt"
	"reflect"

	"gopkg.in/yaml.v3"
)

// YAMLMatches parses text with yaml.v3 (a trusted dependency) and reports
// whether it denotes exactly the data of the tree. Used as generator self-check.
func YAMLMatches(text string, y *Y) error {
	var got any
	if err := yaml.Unmarshal([]byte(text), &got); err != nil {
		return fmt.Errorf("generated YAML does not parse: %v", err)
	}
	want := y.ToAny()
	if !reflect.DeepEqual(normYAML(got), normYAML(want)) {
		return fmt.Errorf("generated YAML denotes different data")
	}
	return nil
}

func normYAML(v any) any {
	switch x := v.(type) {
	case map[string]any:
		m := map[string]any{}
		for k, e := range x {
			m[k] = normYAML(e)
		}
		return m
	case map[any]any:
		m := map[string]any{}
		for k, e := range x {
			m[fmt.Sprint(k)] = normYAML(e)
		}
		return m
	case []any:
		out := make([]any, len(x))
		for i, e := range x {
			out[i] = normYAML(e)
		}
		return out
	case int64:
		return int(x)
	default:
		return v
	}
}
