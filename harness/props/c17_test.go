package props

import (
	"encoding/json"
	"fmt"
	"os"
	"path/filepath"
	"sort"
	"strings"
	"sync"
	"testing"

	"github.com/aml-org/amf-custom-validator/pkg"
	"github.com/aml-org/amf-custom-validator/pkg/config"
	"gopkg.in/yaml.v3"
	"pgregory.net/rapid"
	"verifharness/ev"
	m "verifharness/model"
)

// ---------------------------------------------------------------- fixtures

var (
	fixOnce     sync.Once
	fixProfiles []string
	fixData     []string
	fixLexical  []string
)

func loadFixtures() {
	fixOnce.Do(func() {
		root := os.Getenv("VERIF_REPO")
		if root == "" {
			root = "/repo"
		}
		_ = filepath.Walk(filepath.Join(root, "test", "data"), func(p string, info os.FileInfo, err error) error {
			if err != nil || info.IsDir() || info.Size() > 30000 {
				return nil
			}
			switch {
			case strings.HasSuffix(p, ".yaml"):
				if b, err := os.ReadFile(p); err == nil && strings.Contains(string(b), "validations") {
					fixProfiles = append(fixProfiles, string(b))
				}
			case strings.HasSuffix(p, ".jsonld") && !strings.Contains(filepath.Base(p), "report"):
				if b, err := os.ReadFile(p); err == nil {
					if strings.Contains(string(b), "document-source-maps") || strings.Contains(string(b), "sourcemaps") {
						fixLexical = append(fixLexical, string(b))
					} else {
						fixData = append(fixData, string(b))
					}
				}
			}
			return nil
		})
		sort.Strings(fixProfiles)
		sort.Strings(fixData)
		sort.Strings(fixLexical)
		for _, p := range c04Profiles {
			fixProfiles = append(fixProfiles, p)
		}
	})
}

// ---------------------------------------------------------------- YAML mutation

type yslot struct {
	parent *yaml.Node
	idx    int
}

func yamlSlots(n *yaml.Node, out *[]yslot) {
	for i, c := range n.Content {
		*out = append(*out, yslot{n, i})
		yamlSlots(c, out)
	}
}

var yamlScalars = []string{"", "x", "5", "-1", "99999999999999999999", "true", "null", "~", "1.5", "[]", "{}", "targetClass", "message", "propertyConstraints",
	"((", "ex.", "zz.Unknown", "noDot", "ex.a / / ex.b", "ex.a b", "ex.p0", "shacl.name", "@type", "apiExt.foo", "and", "or", "not", "nested", "rego", "$node"}

func scalarNode(v string) *yaml.Node {
	var n yaml.Node
	if err := yaml.Unmarshal([]byte(v), &n); err == nil && len(n.Content) == 1 && n.Content[0].Kind == yaml.ScalarNode {
		return n.Content[0]
	}
	return &yaml.Node{Kind: yaml.ScalarNode, Tag: "!!str", Value: v}
}

func mutateYAML(t *rapid.T, text string, k int) (string, []string) {
	var doc yaml.Node
	if err := yaml.Unmarshal([]byte(text), &doc); err != nil || len(doc.Content) == 0 {
		return text, []string{"unparsable-seed"}
	}
	var ops []string
	for i := 0; i < k; i++ {
		var slots []yslot
		yamlSlots(&doc, &slots)
		if len(slots) == 0 {
			break
		}
		s := slots[rapid.IntRange(0, len(slots)-1).Draw(t, "slot")]
		op := rapid.SampledFrom([]string{"scalar", "scalar", "delete", "empty-seq", "empty-map", "null", "dup", "wrap-seq", "swap", "wrap-map", "alias"}).Draw(t, "yop")
		ops = append(ops, op)
		p := s.parent
		switch op {
		case "scalar":
			p.Content[s.idx] = scalarNode(pick(t, yamlScalars, "scalar"))
		case "null":
			p.Content[s.idx] = &yaml.Node{Kind: yaml.ScalarNode, Tag: "!!null", Value: "null"}
		case "delete":
			if p.Kind == yaml.MappingNode {
				j := s.idx &^ 1
				if j+1 < len(p.Content) {
					p.Content = append(p.Content[:j], p.Content[j+2:]...)
				}
			} else if p.Kind == yaml.SequenceNode {
				p.Content = append(p.Content[:s.idx], p.Content[s.idx+1:]...)
			}
		case "empty-seq":
			p.Content[s.idx] = &yaml.Node{Kind: yaml.SequenceNode, Tag: "!!seq"}
		case "empty-map":
			p.Content[s.idx] = &yaml.Node{Kind: yaml.MappingNode, Tag: "!!map"}
		case "dup":
			if p.Kind == yaml.MappingNode {
				j := s.idx &^ 1
				if j+1 < len(p.Content) {
					p.Content = append(p.Content, p.Content[j], p.Content[j+1])
				}
			} else if p.Kind == yaml.SequenceNode {
				p.Content = append(p.Content, p.Content[s.idx])
			}
		case "wrap-seq":
			p.Content[s.idx] = &yaml.Node{Kind: yaml.SequenceNode, Tag: "!!seq", Content: []*yaml.Node{p.Content[s.idx]}}
		case "wrap-map":
			p.Content[s.idx] = &yaml.Node{Kind: yaml.MappingNode, Tag: "!!map", Content: []*yaml.Node{scalarNode(pick(t, yamlScalars, "key")), p.Content[s.idx]}}
		case "alias":
			// anchor the node and put an alias to it somewhere else: after it, before it (an unknown anchor), in
			// place of an ancestor (the anchor disappears) or inside the node itself (an anchor that contains itself)
			target := p.Content[s.idx]
			target.Anchor = fmt.Sprintf("a%d", i)
			var inside []yslot
			yamlSlots(target, &inside)
			cand := slots
			if len(inside) > 0 && rapid.Bool().Draw(t, "aliasInside") {
				cand = inside
				ops[len(ops)-1] = "alias-inside-its-anchor"
			}
			o := cand[rapid.IntRange(0, len(cand)-1).Draw(t, "aliasSlot")]
			if o.parent.Content[o.idx] != target {
				o.parent.Content[o.idx] = &yaml.Node{Kind: yaml.AliasNode, Alias: target, Value: target.Anchor}
			}
		case "swap":
			o := slots[rapid.IntRange(0, len(slots)-1).Draw(t, "slot2")]
			if o.parent == p && o.idx < len(p.Content) {
				p.Content[s.idx], p.Content[o.idx] = p.Content[o.idx], p.Content[s.idx]
			}
		}
	}
	b, err := yaml.Marshal(&doc)
	if err != nil {
		return text, append(ops, "marshal-failed")
	}
	return string(b), ops
}

var rawProfiles = []string{"", " ", "\n", "# only a comment\n", "---\n", "--- \n...\n", "a: 1\n---\nb: 2\n", "- a\n- b\n", "5", "null", "~", "\"str\"", "profile: x", "profile: x\nvalidations: 5\n",
	"profile: x\nvalidations: {}\n", "profile: [a]\nvalidations: {}\n", "profile: x\nvalidations:\n  v: 5\nviolation: [v]\n", "profile: x\nvalidations:\n  v: {}\nviolation: [v]\n",
	"profile: x\nvalidations:\n  v:\n    targetClass: ex.T\n    not: &n\n      not: *n\nviolation: [v]\nprefixes: {ex: 'http://e/'}\n",
	"profile: x\nvalidations:\n  v:\n    targetClass: ex.T\n    propertyConstraints:\n      ex.a:\n        in: &v [ *v ]\nviolation: [v]\nprefixes: {ex: 'http://e/'}\n",
	"&r\nprofile: x\nvalidations: *r\n", "profile: x\nvalidations: &v\n  v: *v\nviolation: [v]\n", "profile: x\nvalidations:\n  v: &b\n    targetClass: ex.T\n    and: [*b, *b]\nviolation: [v]\nprefixes: {ex: 'http://e/'}\n",
	"profile: x\nvalidations:\n  v: &b\n    targetClass: ex.T\n    propertyConstraints: &pc\n      ex.a: {minCount: 1}\n  w:\n    targetClass: ex.U\n    propertyConstraints: *pc\nviolation: [v, w]\nprefixes: {ex: 'http://e/'}\n",
	"base: &a {targetClass: ex.T}\nprofile: x\nvalidations:\n  v: *a\nviolation: [v]\n", "profile: x\nviolation: v\nvalidations:\n  v: {targetClass: ex.T}\n",
	"profile: x\nprefixes: 5\nvalidations: {}\n", "profile: x\nprefixes: {ex: 5}\nvalidations: {}\n", "\tprofile: x\n", "profile: x\nvalidations:\n  v:\n    targetClass: zz.T\n    propertyConstraints: {}\nviolation: [v]\n",
	"profile: x\nvalidations:\n  v:\n    targetClass: ex.T\n    propertyConstraints:\n      ex.a: 5\nviolation: [v]\nprefixes: {ex: 'http://e/'}\n",
	"profile: x\nvalidations:\n  v:\n    targetClass: ex.T\n    propertyConstraints:\n      '((': {minCount: 1}\nviolation: [v]\nprefixes: {ex: 'http://e/'}\n",
	"profile: x\nvalidations:\n  v:\n    targetClass: ex.T\n    if: {}\nviolation: [v]\nprefixes: {ex: 'http://e/'}\n",
	"profile: x\nvalidations:\n  v:\n    targetClass: ex.T\n    and: []\nviolation: [v]\nprefixes: {ex: 'http://e/'}\n",
	"profile: x\nvalidations:\n  v:\n    targetClass: ex.T\n    or: []\nviolation: [v]\nprefixes: {ex: 'http://e/'}\n",
	"profile: x\nvalidations:\n  v:\n    targetClass: ex.T\n    not: {and: []}\nviolation: [v]\nprefixes: {ex: 'http://e/'}\n",
	"profile: x\nvalidations:\n  v:\n    targetClass: ex.T\n    propertyConstraints: {}\nviolation: [v]\nprefixes: {ex: 'http://e/'}\n",
	"profile: x\nvalidations:\n  v:\n    targetClass: ex.T\n    propertyConstraints:\n      ex.a: {}\nviolation: [v]\nprefixes: {ex: 'http://e/'}\n",
	"profile: x\nvalidations:\n  v:\n    targetClass: ex.T\n    propertyConstraints:\n      ex.a: {atLeast: {count: 1}}\nviolation: [v]\nprefixes: {ex: 'http://e/'}\n",
	"profile: x\nvalidations:\n  v:\n    targetClass: ex.T\n    propertyConstraints:\n      ex.a: {datatype: nodot}\nviolation: [v]\nprefixes: {ex: 'http://e/'}\n",
	"profile: x\nvalidations:\n  v:\n    targetClass: ex.T\n    message: '{{zz.a}}'\n    propertyConstraints:\n      ex.a: {minCount: 1}\nviolation: [v]\nprefixes: {ex: 'http://e/'}\n",
	"profile: x\nvalidations:\n  v:\n    targetClass: ex.T\n    propertyConstraints:\n      ex.a: {lessThanProperty: '(('}\nviolation: [v]\nprefixes: {ex: 'http://e/'}\n",
	"profile: x\nvalidations:\n  v:\n    targetClass: ex.T\n    propertyConstraints:\n      apiExt.: {minCount: 1}\nviolation: [v]\n",
	"profile: x\nvalidations:\n  v:\n    targetClass: ex.T\n    propertyConstraints:\n      ex.a: {minInclusive: abc}\nviolation: [v]\nprefixes: {ex: 'http://e/'}\n",
}

// ---------------------------------------------------------------- JSON mutation

type jslot struct {
	arr []any
	obj map[string]any
	key string
	idx int
}

func jsonSlots(v any, out *[]jslot) {
	switch x := v.(type) {
	case map[string]any:
		keys := make([]string, 0, len(x))
		for k := range x {
			keys = append(keys, k)
		}
		sort.Strings(keys)
		for _, k := range keys {
			*out = append(*out, jslot{obj: x, key: k})
			jsonSlots(x[k], out)
		}
	case []any:
		for i := range x {
			*out = append(*out, jslot{arr: x, idx: i})
			jsonSlots(x[i], out)
		}
	}
}

var jsonReplacements = []string{`5`, `"x"`, `null`, `true`, `[]`, `{}`, `[1,"a",null]`, `{"@id":5}`, `{"@id":"http://ex.org/missing"}`, `{"@value":null}`, `{"@list":[]}`, `{"@set":[]}`,
	`"[(1,2)-(3,4)]"`, `"[(1,2)-(3"`, `""`, `{"@id":"_:b0"}`, `1e400`, `-0`, `{"@type":"@id"}`, `{"@graph":[]}`, `[[[]]]`, `{"@value":"x","@type":"http://www.w3.org/2001/XMLSchema#integer"}`}

func mutateJSON(t *rapid.T, text string, k int) (string, []string) {
	var doc any
	dec := json.NewDecoder(strings.NewReader(text))
	dec.UseNumber()
	if err := dec.Decode(&doc); err != nil {
		return text, []string{"unparsable-seed"}
	}
	var ops []string
	for i := 0; i < k; i++ {
		var slots []jslot
		jsonSlots(doc, &slots)
		if len(slots) == 0 {
			break
		}
		// bias towards source-map related slots, where the indexer makes type assumptions
		var hot []int
		for j, s := range slots {
			if s.obj != nil && (strings.Contains(s.key, "source-maps") || strings.Contains(s.key, "document#") || s.key == "@id" || s.key == "@type" || s.key == "@graph") {
				hot = append(hot, j)
			}
		}
		var s jslot
		if len(hot) > 0 && rapid.Bool().Draw(t, "hot") {
			s = slots[hot[rapid.IntRange(0, len(hot)-1).Draw(t, "hotslot")]]
		} else {
			s = slots[rapid.IntRange(0, len(slots)-1).Draw(t, "jslot")]
		}
		op := rapid.SampledFrom([]string{"replace", "replace", "delete", "wrap-array", "rename"}).Draw(t, "jop")
		ops = append(ops, op)
		var repl any
		_ = json.Unmarshal([]byte(pick(t, jsonReplacements, "repl")), &repl)
		switch op {
		case "replace":
			if s.obj != nil {
				s.obj[s.key] = repl
			} else {
				s.arr[s.idx] = repl
			}
		case "delete":
			if s.obj != nil {
				delete(s.obj, s.key)
			} else {
				s.arr[s.idx] = nil
			}
		case "wrap-array":
			if s.obj != nil {
				s.obj[s.key] = []any{s.obj[s.key], repl}
			} else {
				s.arr[s.idx] = []any{s.arr[s.idx]}
			}
		case "rename":
			if s.obj != nil {
				v := s.obj[s.key]
				delete(s.obj, s.key)
				s.obj[pick(t, []string{"@id", "@type", "@graph", "@value", "@context", "@reverse", "@list", "x", "http://a.ml/vocabularies/document-source-maps#element", "http://a.ml/vocabularies/document#rootLocation"}, "newkey")] = v
			}
		}
	}
	b, err := json.Marshal(doc)
	if err != nil {
		return text, append(ops, "marshal-failed")
	}
	return string(b), ops
}

var rawData = []string{`{"@graph":[{"@id":"http://example.org/a","":true}]}`, `{"":true}`, `[{"@id":"http://example.org/a","":[1,false]}]`, "[]", "{}", `{"@graph":[]}`, `{"@id":"http://a/b"}`, `[{"@id":"http://a/b"}]`, "null", "5", `"s"`, "true", "[[]]", `[null]`, `[1,2]`, `{"@context":{}}`,
	`{"@graph":5}`, `{"@graph":{"@graph":[]}}`, `[{"@type":"http://ex.org/v#Test"}]`, `{"@id":"_:b","@type":["http://ex.org/v#Test"]}`,
	`[{"@id":"http://x/sm","@type":"http://a.ml/vocabularies/document-source-maps#SourceMap","http://a.ml/vocabularies/document-source-maps#lexical":{"@id":"http://x/l"}}]`,
	`[{"@id":"http://x/sm","@type":"http://a.ml/vocabularies/document-source-maps#SourceMap","http://a.ml/vocabularies/document-source-maps#lexical":[{"@id":"http://x/l"}]},{"@id":"http://x/l","http://a.ml/vocabularies/document-source-maps#element":5}]`,
	`[{"@id":"http://x/si","@type":"http://a.ml/vocabularies/document#BaseUnitSourceInformation"}]`,
	`[{"@id":"http://x/si","@type":"http://a.ml/vocabularies/document#BaseUnitSourceInformation","http://a.ml/vocabularies/document#rootLocation":5}]`,
	`[{"@id":"http://x/si","@type":"http://a.ml/vocabularies/document#BaseUnitSourceInformation","http://a.ml/vocabularies/document#rootLocation":"f","http://a.ml/vocabularies/document#additionalLocations":[{"@id":"http://x/al"}]},{"@id":"http://x/al","http://a.ml/vocabularies/document#location":7}]`,
}

// ---------------------------------------------------------------- the check

type c17Case struct {
	Profile string   `json:"profile"`
	Data    string   `json:"data"`
	Entry   string   `json:"entry"`
	Ops     []string `json:"ops"`
	Debug   bool     `json:"debug"`
}

var c17Entries = []string{"Validate", "ValidateWithConfiguration", "CompileProfile", "Compile+ValidateCompiled", "Compile+ValidateCompiledWithConfiguration"}

func byteMutate(t *rapid.T, s string) string {
	b := []byte(s)
	n := rapid.IntRange(1, 3).Draw(t, "byteMuts")
	for i := 0; i < n && len(b) > 0; i++ {
		pos := rapid.IntRange(0, len(b)-1).Draw(t, "bpos")
		switch rapid.IntRange(0, 3).Draw(t, "bop") {
		case 0:
			end := pos + rapid.IntRange(1, 20).Draw(t, "blen")
			if end > len(b) {
				end = len(b)
			}
			b = append(b[:pos:pos], b[end:]...)
		case 1:
			ins := rapid.SliceOfN(rapid.Byte(), 1, 4).Draw(t, "bins")
			b = append(b[:pos:pos], append(ins, b[pos:]...)...)
		case 2:
			b[pos] = rapid.Byte().Draw(t, "bval")
		default:
			b = b[:pos]
		}
	}
	return string(b)
}

// injected results: embedded Rego lets a profile put anything into the result sets the report is built from
// (entries that are not objects, objects without the expected members, members of the wrong kind). The profile
// compiles; whatever the report builder makes of the entry, the caller must get a report or an error.
var injectedEntries = []string{`"text"`, `5`, `true`, `null`, `[1]`, `{}`, `{"focusNode": 5}`, `{"sourceShapeName": "v"}`, `{"trace": "x"}`,
	`{"focusNode": "http://ex.org/n/n0", "resultMessage": 5, "trace": [5]}`, `{"focusNode": "http://ex.org/n/n0", "sourceShapeName": "v", "resultMessage": "m", "trace": [{"component": 5}]}`,
	`{"focusNode": "http://ex.org/n/n0", "sourceShapeName": "v", "resultMessage": "m", "trace": [{"component": "c", "resultPath": "p", "traceValue": "not an object"}]}`,
	`{"focusNode": "http://ex.org/n/n0", "sourceShapeName": "v", "resultMessage": "m", "trace": [{"component": "c", "resultPath": "p", "traceValue": {"subResult": [7]}}]}`,
	`{"focusNode": ["a", "b"], "sourceShapeName": {"x": 1}, "resultMessage": null, "trace": []}`, `[[[]]]`, `{"trace": [[]]}`, `input`, `data`}

func genInjectionProfile(t *rapid.T) string {
	levels := []string{"violation", "warning", "info"}
	listed := pick(t, levels, "listedLevel")
	injected := pick(t, levels, "injectedLevel")
	entry := pick(t, injectedEntries, "injectedEntry")
	var sb strings.Builder
	sb.WriteString("profile: injected\nprefixes:\n  ex: http://ex.org/v#\n")
	if rapid.IntRange(0, 4).Draw(t, "listV") != 0 {
		sb.WriteString(listed + ":\n- v\n")
	}
	sb.WriteString("validations:\n  v:\n    targetClass: ex.Test\n    propertyConstraints:\n      ex.p0:\n        minCount: " + pick(t, []string{"0", "1", "5"}, "injMin") + "\n")
	switch rapid.IntRange(0, 3).Draw(t, "injectionForm") {
	case 0: // a complete rule
		sb.WriteString("rego_extensions: |\n  " + injected + " = " + entry + "\n")
	case 1: // an element rule with a condition on the input
		sb.WriteString("rego_extensions: |\n  " + injected + "[m] {\n    count(input) >= 0\n    m := " + entry + "\n  }\n")
	default:
		sb.WriteString("rego_extensions: |\n  " + injected + "[m] { m := " + entry + " }\n")
	}
	return sb.String()
}

// evaluation-time failures: the profile compiles, the engine fails while evaluating (conflicting outputs of a
// function or of a complete rule, duplicate keys of an object comprehension). Every such call must still return an
// error - and so must the calls made after any number of them in the same process.
var evalErrorExtensions = []string{
	"conflicting(x) = 1 { true }\nconflicting(x) = 2 { true }\nviolation[m] { m := conflicting(1) }\n",
	"report[\"profile\"] = \"another name\"\n",
	"by_key = {k: v | some i; pair := [[\"a\", 1], [\"a\", 2]][i]; k := pair[0]; v := pair[1]}\nviolation[m] { m := by_key }\n",
	"pick = 1 { true }\npick = 2 { true }\nwarning[m] { m := pick }\n",
}

func genEvalErrorProfile(t *rapid.T) string {
	return "profile: failing evaluation\nprefixes:\n  ex: http://ex.org/v#\nviolation:\n- v\nwarning:\n- w\nvalidations:\n  v:\n    targetClass: ex.Test\n    propertyConstraints:\n      ex.p0:\n        minCount: 1\n" +
		"  w:\n    targetClass: ex.Test\n    propertyConstraints:\n      ex.p1:\n        maxCount: 5\nrego_extensions: |\n  " + strings.ReplaceAll(pick(t, evalErrorExtensions, "evalError"), "\n", "\n  ") + "\n"
}

// prefix games: namespaces that look like compact IRIs of other prefixes (chains, cycles, a prefix naming itself),
// built-in names among them. A namespace is text; nothing obliges the translator to resolve it further, but if it
// does it has to come back.
func genPrefixGameProfile(t *rapid.T) string {
	names := []string{"ex", "base", "core", "shapes", "q"}
	k := rapid.IntRange(1, 4).Draw(t, "prefixCount")
	var sb strings.Builder
	sb.WriteString("profile: prefix games\nprefixes:\n")
	for i := 0; i < k; i++ {
		var ns string
		switch rapid.IntRange(0, 4).Draw(t, "nsKind") {
		case 0:
			ns = "http://ex.org/" + names[i] + "#"
		case 1: // points at the next prefix (the last one closes the cycle)
			ns = names[(i+1)%k] + ".ns/"
		case 2: // points at itself
			ns = names[i] + ".self/"
		case 3: // points at a built-in prefix or at an undeclared name
			ns = pick(t, []string{"apiContract.x/", "doc.y#", "nowhere.z/", "shacl."}, "nsTarget")
		default:
			ns = names[rapid.IntRange(0, k-1).Draw(t, "nsRef")] + "." + pick(t, []string{"a/", "b#", ""}, "nsLocal")
		}
		sb.WriteString("  " + names[i] + ": " + ns + "\n")
	}
	sb.WriteString("violation:\n- v\nvalidations:\n  v:\n    targetClass: " + names[0] + ".Test\n    propertyConstraints:\n      " + names[k-1] + ".p0:\n        minCount: 1\n")
	return sb.String()
}

// custom Rego with the characters the translator gives a meaning to ($result, $node, $traceNode, $message are
// placeholders) used otherwise: a dollar sign that starts no word, doubled, at the end, inside strings and patterns
var dollarRego = []string{
	"v := object.get($node, \"http://ex.org/v#p0\", \"\")\n$result = regex.match(\"^[0-9]+$\", v)",
	"$result = (\"cost: 5$\" != \"\")", "$result = true # $", "$result = ($node != \"$\")", "$$result = true", "$result = (count(\"$ $$ $1 $-\") > 0)",
	"$result = true\n$", "x := \"$nodes and $results\"\n$result = (x != \"\")", "$result = regex.match(`\\$\\d+`, \"$5\")", "$", "",
}

func genDollarProfile(t *rapid.T) string {
	code := pick(t, dollarRego, "dollarRego")
	form := rapid.IntRange(0, 2).Draw(t, "dollarForm")
	var sb strings.Builder
	sb.WriteString("profile: dollars\nprefixes:\n  ex: http://ex.org/v#\nviolation:\n- v\nvalidations:\n  v:\n    targetClass: ex.Test\n")
	indent := func(s, pad string) string { return pad + strings.ReplaceAll(s, "\n", "\n"+pad) + "\n" }
	switch form {
	case 0:
		sb.WriteString("    rego: |\n" + indent(code, "      "))
	case 1:
		sb.WriteString("    rego:\n      message: custom\n      code: |\n" + indent(code, "        "))
	default:
		sb.WriteString("    propertyConstraints:\n      ex.p0:\n        rego: |\n" + indent(code, "          "))
	}
	return sb.String()
}

// numeric extremes: numbers that are well-formed JSON and far outside what a float64 or an int64 holds, on a
// property a constraint looks at (and quotes in its trace when violated)
var extremeNumbers = []string{"1e999", "-1e999", "1E400", "2.5e+310", "1e308", "1e-400", "9007199254740993", "123456789012345678901234567890", "-0", "0.1e1", "1e+2", "0E0", "4.9e-324"}

func genNumericExtremeCase(t *rapid.T) (profile, data string) {
	c := pick(t, []string{"maxExclusive: 50", "minInclusive: 1000", "maxInclusive: 0.5", "in:\n        - 1\n        - 2", "datatype: xsd.string", "maxCount: 0", "pattern: \"^a\""}, "extremeConstraint")
	profile = "profile: numeric extremes\nprefixes:\n  ex: http://ex.org/v#\nviolation:\n- v\nvalidations:\n  v:\n    targetClass: ex.Test\n    message: \"value {{ex.p0}}\"\n    propertyConstraints:\n      ex.p0:\n        " + c + "\n"
	n := rapid.IntRange(1, 3).Draw(t, "extremeCount")
	vals := make([]string, n)
	for i := range vals {
		vals[i] = pick(t, extremeNumbers, "extremeNumber")
		if rapid.Bool().Draw(t, "wrapped") {
			vals[i] = "{\"@value\": " + vals[i] + "}"
		}
	}
	data = "[{\"@id\": \"http://ex.org/n/n0\", \"@type\": [\"http://ex.org/v#Test\"], \"http://ex.org/v#p0\": [" + strings.Join(vals, ", ") + "]}]"
	return
}

func genC17(t *rapid.T) c17Case {
	loadFixtures()
	c := c17Case{Entry: pick(t, c17Entries, "entry"), Debug: rapid.IntRange(0, 3).Draw(t, "debug") == 0}
	// profile (half of the cases keep the profile valid so that mutated data reaches indexing and evaluation)
	pk := rapid.IntRange(0, 14).Draw(t, "pkind")
	if rapid.Bool().Draw(t, "keepProfile") {
		pk = 3
	}
	switch pk {
	case 14:
		c.Profile, c.Data = genNumericExtremeCase(t)
		c.Ops = append(c.Ops, "p:numeric-extremes", "d:numeric-extremes")
		return c
	case 13:
		c.Profile = genDollarProfile(t)
		c.Ops = append(c.Ops, "p:dollar-signs-in-rego")
	case 12:
		c.Profile = genPrefixGameProfile(t)
		c.Ops = append(c.Ops, "p:prefix-games")
	case 11:
		c.Profile = genEvalErrorProfile(t)
		c.Ops = append(c.Ops, "p:evaluation-fails")
	case 10:
		c.Profile = genInjectionProfile(t)
		c.Ops = append(c.Ops, "p:injected-result-entry")
	case 0:
		c.Profile = pick(t, rawProfiles, "rawProfile")
		c.Ops = append(c.Ops, "p:raw")
	case 1:
		c.Profile = byteMutate(t, pick(t, fixProfiles, "seedProfile"))
		c.Ops = append(c.Ops, "p:bytes")
	case 2:
		c.Profile = string(rapid.SliceOfN(rapid.Byte(), 0, 60).Draw(t, "profileBytes"))
		c.Ops = append(c.Ops, "p:random")
	case 3, 4:
		c.Profile = pick(t, fixProfiles, "seedProfile")
		c.Ops = append(c.Ops, "p:valid")
	default:
		var ops []string
		c.Profile, ops = mutateYAML(t, pick(t, fixProfiles, "seedProfile"), rapid.IntRange(1, 3).Draw(t, "yk"))
		for _, o := range ops {
			c.Ops = append(c.Ops, "p:"+o)
		}
	}
	// data
	seeds := fixData
	if len(fixLexical) > 0 && rapid.Bool().Draw(t, "lexicalSeed") {
		seeds = fixLexical
	}
	dk := rapid.IntRange(0, 9).Draw(t, "dkind")
	if pk == 11 && dk != 0 {
		dk = 3 // an evaluation can only fail on data that reaches it
	}
	switch dk {
	case 0:
		c.Data = pick(t, rawData, "rawData")
		c.Ops = append(c.Ops, "d:raw")
	case 1:
		c.Data = byteMutate(t, pick(t, seeds, "seedData"))
		c.Ops = append(c.Ops, "d:bytes")
	case 2:
		c.Data = string(rapid.SliceOfN(rapid.Byte(), 0, 60).Draw(t, "dataBytes"))
		c.Ops = append(c.Ops, "d:random")
	case 3:
		c.Data = pick(t, seeds, "seedData")
		c.Ops = append(c.Ops, "d:valid")
	default:
		var ops []string
		c.Data, ops = mutateJSON(t, pick(t, seeds, "seedData"), rapid.IntRange(1, 3).Draw(t, "jk"))
		for _, o := range ops {
			c.Ops = append(c.Ops, "d:"+o)
		}
	}
	return c
}

// decideC17 bounds the entry point in time: "terminates, never blocks" is decided by a bound far above the cost
// of the same calls on the unchanged tree, with a control call that rules out a stalled machine.
func decideC17(c c17Case) ev.Verdict {
	v, ok := returnsInTime("C17", func() ev.Verdict { return decideC17Calls(c) })
	if !ok {
		ev.Abort("C17", "TestC17", c, ev.Violation("c17-no-return@"+c.Entry, "%s has not returned after %d s (a control computation outside the library completes at once)\nprofile (%d bytes):\n%s\ndata (%d bytes):\n%s",
			c.Entry, noReturnSecs(), len(c.Profile), trunc(c.Profile, 1500), len(c.Data), trunc(c.Data, 600)))
	}
	return v
}

func decideC17Calls(c c17Case) ev.Verdict {
	var res call
	compiled := true
	switch c.Entry {
	case "Validate":
		res = guard(func() (string, error) { return pkg.Validate(c.Profile, c.Data, c.Debug, nil) })
	case "ValidateWithConfiguration":
		res = guard(func() (string, error) {
			return pkg.ValidateWithConfiguration(c.Profile, c.Data, c.Debug, nil, clock0, config.DefaultReportConfiguration())
		})
	default:
		q, cc := compileProfileDebug(c.Profile, c.Debug)
		if cc.Panic != "" {
			return ev.Violation("panic@"+panicSite(cc.Stack), "CompileProfile panicked: %s\nprofile:\n%s", trunc(cc.Panic, 300), trunc(c.Profile, 1500))
		}
		if (q != nil) == (cc.Err != nil) {
			return ev.Violation("c17-both-or-neither", "CompileProfile returned handle=%v err=%v", q != nil, cc.Err)
		}
		if cc.Err != nil || c.Entry == "CompileProfile" {
			lab := "outcome:compile-error"
			if cc.Err == nil {
				lab = "outcome:compiled"
			}
			return ev.Verdict{OK: true, NonTrivial: cc.Err != nil, Labels: append([]string{"entry:" + c.Entry, lab}, c.Ops...)}
		}
		if c.Entry == "Compile+ValidateCompiled" {
			res = guard(func() (string, error) { return pkg.ValidateCompiled(q, c.Data, c.Debug, nil) })
		} else {
			res = guard(func() (string, error) {
				return pkg.ValidateCompiledWithConfiguration(q, c.Data, c.Debug, nil, clock0, config.DefaultReportConfiguration())
			})
		}
	}
	_ = compiled
	if res.Panic != "" {
		return ev.Violation("panic@"+panicSite(res.Stack), "%s panicked: %s\nprofile:\n%s\ndata:\n%s", c.Entry, trunc(res.Panic, 300), trunc(c.Profile, 1500), trunc(c.Data, 1500))
	}
	if (res.Report != "") == (res.Err != nil) {
		return ev.Violation("c17-both-or-neither", "%s returned report(len %d) and err=%v", c.Entry, len(res.Report), res.Err)
	}
	lab := "outcome:error"
	if res.Err != nil && strings.Contains(res.Err.Error(), "eval_") {
		lab = "outcome:evaluation-error"
	}
	if res.Err == nil {
		lab = "outcome:report"
		// JSON as a syntax: numbers of any magnitude are fine (decoded as json.Number, not as float64)
		var v any
		dec := json.NewDecoder(strings.NewReader(res.Report))
		dec.UseNumber()
		if err := dec.Decode(&v); err != nil {
			return ev.Violation("c17-report-not-json", "%s returned a report that is not JSON: %v\n%s", c.Entry, err, trunc(res.Report, 500))
		}
	}
	return ev.Verdict{OK: true, NonTrivial: res.Err != nil, Labels: append([]string{"entry:" + c.Entry, lab}, c.Ops...)}
}

func TestC17(t *testing.T) {
	ev.Run(t, "C17", genC17, decideC17)
}

// ---------------------------------------------------------------- documents without nodes

type c17Empty struct {
	Profile int    `json:"profile"`
	Data    string `json:"data"`
	Entry   string `json:"entry"`
}

var nodelessDocs = []string{"[]", "{}", " [ ] ", `{"@graph":[]}`, `{"@context":{"ex":"http://ex.org/v#"}}`, `{"@context":{"ex":"http://ex.org/v#"},"@graph":[]}`,
	`{"@id":"http://ex.org/n/n0"}`, `[{"@id":"http://ex.org/n/n0"},{"@id":"http://ex.org/n/n1"}]`, "[{}]", "[[],[]]", `{"@graph":[{"@id":"http://ex.org/n/n0"}]}`, "[]\n"}

func decideC17Empty(c c17Empty) ev.Verdict {
	profile := c04Profiles[c.Profile]
	var res call
	switch c.Entry {
	case "Validate":
		res = guard(func() (string, error) { return pkg.Validate(profile, c.Data, false, nil) })
	case "ValidateWithConfiguration":
		res = validateFixed(profile, c.Data)
	default:
		q, err := c04Query(c.Profile)
		if err != nil {
			return ev.Violation("c17-profile-does-not-compile", "%v", err)
		}
		if c.Entry == "ValidateCompiled" {
			res = guard(func() (string, error) { return pkg.ValidateCompiled(q, c.Data, false, nil) })
		} else {
			res = validateCompiledFixed(q, c.Data)
		}
	}
	if res.Panic != "" {
		return ev.Violation("panic@"+panicSite(res.Stack), "%s on node-less document %q panicked: %s", c.Entry, c.Data, trunc(res.Panic, 300))
	}
	if res.Err != nil {
		return ev.Violation("c17-nodeless-rejected", "%s on valid node-less JSON-LD %q returned error %v", c.Entry, c.Data, res.Err)
	}
	rep, err := m.ParseReport(res.Report)
	if err != nil {
		return ev.Violation("c17-report-not-json", "%v", err)
	}
	if !rep.Conforms || len(rep.Results) != 0 {
		return ev.Violation("c17-nodeless-not-conforming", "%s on node-less %q: conforms=%v results=%d", c.Entry, c.Data, rep.Conforms, len(rep.Results))
	}
	return ev.Verdict{OK: true, NonTrivial: true, Labels: []string{"nodeless", "entry:" + c.Entry}}
}

func TestC17Nodeless(t *testing.T) {
	var cases []c17Empty
	for p := range c04Profiles {
		for _, d := range nodelessDocs {
			for _, e := range []string{"Validate", "ValidateWithConfiguration", "ValidateCompiled", "ValidateCompiledWithConfiguration"} {
				cases = append(cases, c17Empty{Profile: p, Data: d, Entry: e})
			}
		}
	}
	ev.RunFixed(t, "C17", cases, decideC17Empty)
	_ = fmt.Sprint
}
