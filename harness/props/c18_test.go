package props

import (
	"bytes"
	"fmt"
	"os"
	"path/filepath"
	"regexp"
	"strings"
	"testing"
	"time"

	"github.com/aml-org/amf-custom-validator/pkg"
	"pgregory.net/rapid"
	"verifharness/ev"
	m "verifharness/model"
)

type c18Action struct {
	Kind  string   `json:"kind"` // prestate | validate-file | validate-stdout | generate | normalize | compile | bad-args | unknown-command
	P     int      `json:"p"`
	D     int      `json:"d"`
	Pre   string   `json:"pre,omitempty"` // absent | empty | bytes | previous-long-report | readonly | directory
	Bytes []byte   `json:"bytes,omitempty"`
	Args  []string `json:"args,omitempty"`
	// Onto (validate-file only): the output path is one of the inputs - "data" / "profile" the same path,
	// "symlink-data" / "hardlink-data" another name of the data file. The inputs are what they were when the command
	// started; the file must end up holding the report all the same.
	Onto string `json:"onto,omitempty"`
}

type c18Case struct {
	Profiles []string    `json:"profiles"`
	Docs     []string    `json:"docs"`
	Actions  []c18Action `json:"actions"`
}

var badArgSets = [][]string{{"validate"}, {"validate", "only-one"}, {"validate", "a", "b", "c", "d"}, {"generate"}, {"generate", "a", "b"}, {"normalize"}, {"normalize", "a", "b"}, {"compile"}, {"frobnicate"}, {"frobnicate", "x", "y"}, {"VALIDATE", "a", "b"}}

func genC18(t *rapid.T) c18Case {
	var c c18Case
	text, graphs, prof := genProfileAndGraphs(t, "c18", 2)
	c.Profiles = append(c.Profiles, text)
	// node ids with percent-encoded characters: the report is text that must be emitted verbatim, not interpreted
	for _, g := range graphs {
		for i, n := range g.Nodes {
			if rapid.IntRange(0, 2).Draw(t, "pctId") == 0 {
				n.ID = fmt.Sprintf("%sapis/my%%20api%%2Fv%d.raml#/web-api/%%d%%s", m.NodeNS, i)
			}
		}
	}
	for _, g := range graphs {
		c.Docs = append(c.Docs, g.JSONLD(m.LDOpts{Indent: rapid.SampledFrom([]int{0, 2}).Draw(t, "indent")}))
	}
	// a large graph so that reports differ a lot in length
	big := &m.Graph{}
	atoms := []*m.Atom{}
	for _, v := range prof.Validations {
		atoms = append(atoms, v.Body.Atoms()...)
	}
	nb := rapid.IntRange(8, 25).Draw(t, "bigNodes")
	for i := 0; i < nb; i++ {
		k := big.Add(classTest)
		for _, a := range atoms {
			assign(t, big, k, a, rapid.IntRange(0, 3).Draw(t, "bigTruth") == 0, false)
		}
	}
	c.Docs = append(c.Docs, big.JSONLD(m.LDOpts{}), "[]")
	c.Docs = append(c.Docs, pick(t, []string{"{", "", "not json", `[{"@id":5}]`}, "badDoc"))
	c.Profiles = append(c.Profiles, c04Profiles[1])
	c.Profiles = append(c.Profiles, pick(t, []string{"", "profile: x\n", "- a\n", "profile: x\nvalidations:\n  v:\n    targetClass: zz.T\n    propertyConstraints: {}\nviolation: [v]\n", "profile: [unclosed"}, "badProfile"))
	n := rapid.IntRange(3, 10).Draw(t, "actions")
	for i := 0; i < n; i++ {
		a := c18Action{P: rapid.IntRange(0, len(c.Profiles)-1).Draw(t, "p"), D: rapid.IntRange(0, len(c.Docs)-1).Draw(t, "d")}
		switch rapid.IntRange(0, 11).Draw(t, "akind") {
		case 0, 1, 2, 3, 4:
			a.Kind = "validate-file"
			if rapid.IntRange(0, 5).Draw(t, "ontoInput") == 0 {
				a.Onto = pick(t, []string{"data", "profile", "symlink-data", "hardlink-data", "dev-full", "relative-paths", "relative-paths"}, "onto")
			}
		case 5:
			a.Kind = "validate-stdout"
		case 6, 7, 8:
			a.Kind = "prestate"
			a.Pre = pick(t, []string{"absent", "empty", "bytes", "bytes", "previous-long-report", "readonly", "directory"}, "pre")
			if a.Pre == "bytes" || a.Pre == "readonly" {
				a.Bytes = rapid.SliceOfN(rapid.Byte(), 1, 20000).Draw(t, "preBytes")
			}
		case 9:
			a.Kind = pick(t, []string{"generate", "normalize", "compile"}, "other")
		default:
			a.Kind = "bad-args"
			a.Args = pick(t, badArgSets, "badArgs")
		}
		c.Actions = append(c.Actions, a)
	}
	return c
}

var dateRe = regexp.MustCompile(`"dateCreated": "([^"]*)"`)

// maskDate replaces the dateCreated value and returns it.
func maskDate(report string) (masked string, dates []string) {
	for _, mm := range dateRe.FindAllStringSubmatch(report, -1) {
		dates = append(dates, mm[1])
	}
	return dateRe.ReplaceAllString(report, `"dateCreated": "<masked>"`), dates
}

func dateWithin(dates []string, before, after time.Time) error {
	if len(dates) != 1 {
		return fmt.Errorf("%d dateCreated values", len(dates))
	}
	d, err := time.Parse(time.RFC3339, dates[0])
	if err != nil {
		return fmt.Errorf("dateCreated %q is not RFC 3339", dates[0])
	}
	if d.Before(before.Add(-2*time.Second)) || d.After(after.Add(2*time.Second)) {
		return fmt.Errorf("dateCreated %s outside the interval of the run [%s, %s]", d, before, after)
	}
	return nil
}

type fileState struct {
	exists bool
	isDir  bool
	data   []byte
}

func readState(p string) fileState {
	st, err := os.Stat(p)
	if err != nil {
		return fileState{}
	}
	if st.IsDir() {
		return fileState{exists: true, isDir: true}
	}
	b, _ := os.ReadFile(p)
	return fileState{exists: true, data: b}
}

func (a fileState) equal(b fileState) bool {
	return a.exists == b.exists && a.isDir == b.isDir && bytes.Equal(a.data, b.data)
}

func decideC18(c c18Case) ev.Verdict {
	if os.Getenv("ACV_BIN") == "" {
		return ev.Verdict{Discard: true, Detail: "no acv binary", Obs: map[string]int{"helper_failures": 1}}
	}
	dir := filepath.Join(scratchDir(), "c18")
	_ = os.RemoveAll(dir)
	_ = os.MkdirAll(dir, 0o755)
	defer os.RemoveAll(dir)
	out := filepath.Join(dir, "out.json")
	pfiles := make([]string, len(c.Profiles))
	dfiles := make([]string, len(c.Docs))
	for i, p := range c.Profiles {
		pfiles[i] = filepath.Join(dir, fmt.Sprintf("p%d.yaml", i))
		_ = os.WriteFile(pfiles[i], []byte(p), 0o644)
	}
	for i, d := range c.Docs {
		dfiles[i] = filepath.Join(dir, fmt.Sprintf("d%d.jsonld", i))
		_ = os.WriteFile(dfiles[i], []byte(d), 0o644)
	}
	v := ev.Verdict{OK: true}
	overLonger, failAfterSuccess, lastOK := false, false, false
	for i, a := range c.Actions {
		before := readState(out)
		switch a.Kind {
		case "prestate":
			_ = os.Chmod(out, 0o644)
			_ = os.RemoveAll(out)
			switch a.Pre {
			case "absent":
			case "empty":
				_ = os.WriteFile(out, nil, 0o644)
			case "bytes":
				_ = os.WriteFile(out, a.Bytes, 0o644)
			case "readonly":
				_ = os.WriteFile(out, a.Bytes, 0o444)
			case "directory":
				_ = os.Mkdir(out, 0o755)
			case "previous-long-report":
				r := guard(func() (string, error) { return pkg.Validate(c.Profiles[0], c.Docs[2], false, nil) })
				_ = os.WriteFile(out, []byte(r.Report+strings.Repeat(" ", 100)), 0o644)
			}
			v.Labels = append(v.Labels, "pre:"+a.Pre)
			continue
		case "validate-file", "validate-stdout":
			lib := guard(func() (string, error) { return pkg.Validate(c.Profiles[a.P], c.Docs[a.D], false, nil) })
			if lib.Panic != "" {
				return ev.Violation("c18-library-panic", "library panicked: %s", lib.Panic)
			}
			t0 := time.Now()
			args := []string{"validate", pfiles[a.P], dfiles[a.D]}
			target := out
			relative := false
			if a.Kind == "validate-file" {
				alias := filepath.Join(dir, "alias.jsonld")
				_ = os.Remove(alias)
				switch a.Onto {
				case "data":
					target = dfiles[a.D]
				case "profile":
					target = pfiles[a.P]
				case "symlink-data":
					if os.Symlink(dfiles[a.D], alias) == nil {
						target = alias
					}
				case "hardlink-data":
					if os.Link(dfiles[a.D], alias) == nil {
						target = alias
					}
				case "relative-paths":
					// every path relative to the working directory, the data in a directory of its own: the output path
					// means what it means when the command starts
					sub := filepath.Join(dir, "in")
					_ = os.MkdirAll(sub, 0o755)
					_ = os.WriteFile(filepath.Join(sub, "data.jsonld"), []byte(c.Docs[a.D]), 0o644)
					args = []string{"validate", filepath.Base(pfiles[a.P]), filepath.Join("in", "data.jsonld")}
					relative = true
				case "dev-full":
					// a device that accepts the open and refuses every write (no space left): the report cannot be
					// written, which is a failure like any other
					if st, err := os.Stat("/dev/full"); err == nil && st.Mode()&os.ModeDevice != 0 {
						target = "/dev/full"
					}
				}
				if target == "/dev/full" {
					v.Labels = append(v.Labels, "output-path-is-a-full-device")
				} else if target != out {
					before = readState(target)
					v.Labels = append(v.Labels, "output-path-is-an-input:"+a.Onto)
				}
				if relative {
					args = append(args, filepath.Base(out))
					v.Labels = append(v.Labels, "relative-paths-data-in-a-subdirectory")
				} else {
					args = append(args, target)
				}
			}
			var so, se string
			var exit int
			var err error
			if relative {
				so, se, exit, err = runACVIn(dir, args...)
			} else {
				so, se, exit, err = runACV(args...)
			}
			t1 := time.Now()
			if err != nil {
				return ev.Verdict{Discard: true, Detail: err.Error(), Obs: map[string]int{"helper_failures": 1}}
			}
			if target == "/dev/full" {
				if exit == 0 {
					return ev.Violation("c18-exit0-on-failure", "step %d: the output device refuses every write (no space left), yet acv validate exits 0 (stdout %d bytes)", i, len(so))
				}
				if looksLikeReport(so) && lib.Err != nil {
					return ev.Violation("c18-report-on-failure", "step %d: failure, yet stdout holds a report", i)
				}
				v.Labels = append(v.Labels, "validate-file:write-refused")
				lastOK = false
				continue
			}
			after := readState(target)
			if target != out && target != "/dev/full" {
				// put the inputs back for the steps that follow
				_ = os.Remove(filepath.Join(dir, "alias.jsonld"))
				_ = os.Remove(dfiles[a.D])
				_ = os.WriteFile(dfiles[a.D], []byte(c.Docs[a.D]), 0o644)
				_ = os.WriteFile(pfiles[a.P], []byte(c.Profiles[a.P]), 0o644)
			}
			if lib.Err != nil {
				if exit == 0 {
					return ev.Violation("c18-exit0-on-failure", "step %d %s: library fails (%v) but acv exits 0", i, a.Kind, lib.Err)
				}
				if looksLikeReport(so) {
					return ev.Violation("c18-report-on-failure", "step %d: failure, yet stdout holds a report: %s", i, trunc(so, 300))
				}
				// the statement does not say the file must be untouched on failure, only that no report is produced
				if !after.equal(before) && looksLikeReport(string(after.data)) {
					return ev.Violation("c18-report-written-on-failure", "step %d: validation failed (exit %d) but a report was written to the output file", i, exit)
				}
				if lastOK {
					failAfterSuccess = true
				}
				lastOK = false
				v.Labels = append(v.Labels, a.Kind+":failure")
				continue
			}
			wantMasked, _ := maskDate(lib.Report)
			if a.Kind == "validate-stdout" {
				if exit != 0 {
					return ev.Violation("c18-nonzero-exit-on-success", "step %d: library succeeds but acv validate exits %d: %s", i, exit, trunc(se, 300))
				}
				gotMasked, dates := maskDate(so)
				if gotMasked != wantMasked+"\n" && gotMasked != wantMasked {
					return ev.Violation("c18-stdout-differs", "step %d: stdout is not the library's report (+ newline)\n%s", i, firstDiff(wantMasked+"\n", gotMasked))
				}
				if err := dateWithin(dates, t0, t1); err != nil {
					return ev.Violation("c18-date", "step %d: %v", i, err)
				}
				if !after.equal(before) {
					return ev.Violation("c18-file-touched-by-stdout-run", "step %d: validate without output path changed the output file", i)
				}
				v.Labels = append(v.Labels, "validate-stdout:ok")
				continue
			}
			// validate-file
			if before.isDir {
				if exit == 0 || !after.isDir {
					return ev.Violation("c18-directory-output", "step %d: output path is a directory, acv exit %d", i, exit)
				}
				v.Labels = append(v.Labels, "validate-file:directory")
				lastOK = false
				continue
			}
			if exit != 0 {
				return ev.Violation("c18-nonzero-exit-on-success", "step %d: library succeeds but acv validate P D OUT exits %d: %s", i, exit, trunc(se, 300))
			}
			if looksLikeReport(so) {
				v.Obs = map[string]int{"report_also_printed_when_writing_to_file": 1} // not excluded by the statement: observation only
			}
			gotMasked, dates := maskDate(string(after.data))
			if gotMasked != wantMasked {
				sig := "c18-file-differs"
				if strings.HasPrefix(gotMasked, wantMasked) {
					sig = "c18-file-not-truncated"
				}
				return ev.Violation(sig, "step %d: output file (prior state: exists=%v, %d bytes) does not hold exactly the library's report (%d bytes, file has %d)\n%s", i, before.exists, len(before.data), len(wantMasked), len(gotMasked), firstDiff(wantMasked, gotMasked))
			}
			if err := dateWithin(dates, t0, t1); err != nil {
				return ev.Violation("c18-date", "step %d: %v", i, err)
			}
			if before.exists && len(before.data) > len(after.data) {
				overLonger = true
			}
			lastOK = true
			v.Labels = append(v.Labels, "validate-file:ok")
		case "generate", "normalize", "compile":
			var lib call
			var arg string
			switch a.Kind {
			case "generate", "compile":
				arg = pfiles[a.P]
				_, lib = compileProfile(c.Profiles[a.P])
			default:
				arg = dfiles[a.D]
				q, _ := c04Query(0)
				lib = guard(func() (string, error) { return pkg.ValidateCompiled(q, c.Docs[a.D], false, nil) })
			}
			so, _, exit, err := runACV(a.Kind, arg)
			if err != nil {
				return ev.Verdict{Discard: true, Detail: err.Error(), Obs: map[string]int{"helper_failures": 1}}
			}
			if lib.failed() && a.Kind != "generate" {
				// generate stops before Rego compilation, so only parse/generation failures make it fail (checked in TestC18Hook)
				if exit == 0 {
					return ev.Violation("c18-exit0-on-failure", "step %d: acv %s exits 0 although the library rejects the input (%s)", i, a.Kind, trunc(lib.errString(), 200))
				}
				if looksLikeReport(so) {
					return ev.Violation("c18-report-on-failure", "step %d: stdout holds a report", i)
				}
			}
			if !lib.failed() && exit != 0 {
				return ev.Violation("c18-nonzero-exit-on-success", "step %d: acv %s exits %d on input the library accepts", i, a.Kind, exit)
			}
			if !readState(out).equal(before) {
				return ev.Violation("c18-file-touched", "step %d: acv %s changed the output file", i, a.Kind)
			}
			v.Labels = append(v.Labels, a.Kind)
		case "bad-args":
			so, _, exit, err := runACV(a.Args...)
			if err != nil {
				return ev.Verdict{Discard: true, Detail: err.Error(), Obs: map[string]int{"helper_failures": 1}}
			}
			if exit == 0 {
				return ev.Violation("c18-exit0-on-bad-arguments", "step %d: acv %v exits 0", i, a.Args)
			}
			if looksLikeReport(so) {
				return ev.Violation("c18-report-on-failure", "step %d: acv %v printed a report", i, a.Args)
			}
			if !readState(out).equal(before) {
				return ev.Violation("c18-file-touched", "step %d: acv %v changed the output file", i, a.Args)
			}
			v.Labels = append(v.Labels, "bad-args")
		}
	}
	_ = os.Chmod(out, 0o644)
	if overLonger {
		v.Labels = append(v.Labels, "history:report-over-longer-content")
	}
	if failAfterSuccess {
		v.Labels = append(v.Labels, "history:failure-after-success")
	}
	v.NonTrivial = overLonger || failAfterSuccess
	return v
}

func TestC18(t *testing.T) {
	ev.Run(t, "C18", genC18, decideC18)
}
