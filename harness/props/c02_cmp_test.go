package props

import (
	"fmt"
	"testing"

	"pgregory.net/rapid"
	"verifharness/ev"
	m "verifharness/model"
)

// Property comparisons have two operands, both paths: each denotes its values from the focus node, and the
// comparison holds when it holds for every pair (one value of the first, one of the second) - whatever steps the
// two paths have in common.
type c02CmpCase struct {
	Left      *m.P     `json:"left_path"`
	Right     *m.P     `json:"right_path"`
	LeftText  string   `json:"left"`
	RightText string   `json:"right"`
	Kind      string   `json:"kind"` // lessThanProperty | lessThanOrEqualsToProperty
	Graph     *m.Graph `json:"graph"`
	Route     int      `json:"route,omitempty"`
}

var c02CmpPaths = []func() *m.P{
	func() *m.P { return m.Seq(m.Pred("e0", false), m.Pred("p0", false)) },
	func() *m.P { return m.Seq(m.Pred("e0", false), m.Pred("p1", false)) },
	func() *m.P { return m.Seq(m.Pred("e1", false), m.Pred("p1", false)) },
	func() *m.P { return m.Seq(m.Alt(m.Pred("e0", false), m.Pred("e1", false)), m.Pred("p0", false)) },
	func() *m.P { return m.Pred("p0", false) },
	func() *m.P { return m.Pred("p1", false) },
	func() *m.P { return m.Seq(m.Pred("e0", false), m.Pred("e1", false), m.Pred("p1", false)) },
	func() *m.P { return m.Seq(m.Pred("e0", false), m.Alt(m.Pred("p0", false), m.Pred("p1", false))) },
}

func genC02Cmp(t *rapid.T) c02CmpCase {
	c := c02CmpCase{Kind: pick(t, []string{"lessThanProperty", "lessThanOrEqualsToProperty"}, "kind")}
	c.Left = c02CmpPaths[rapid.IntRange(0, len(c02CmpPaths)-1).Draw(t, "left")]()
	c.Right = c02CmpPaths[rapid.IntRange(0, len(c02CmpPaths)-1).Draw(t, "right")]()
	c.LeftText, c.RightText = c.Left.Print(nil), c.Right.Print(nil)
	n := rapid.IntRange(3, 7).Draw(t, "nodes")
	g := &m.Graph{}
	for i := 0; i < n; i++ {
		if rapid.IntRange(0, 2).Draw(t, "isTarget") == 0 {
			g.Add(classOther)
		} else {
			g.Add(classTest)
		}
	}
	nums := []int64{1, 2, 5, 10, 20, 30}
	for i := 0; i < n; i++ {
		for _, e := range []string{"e0", "e1"} {
			for k := rapid.IntRange(0, 2).Draw(t, "deg"); k > 0; k-- {
				g.Nodes[i].AddVal(m.NS+e, m.NV(rapid.IntRange(0, n-1).Draw(t, "tgt")))
			}
		}
		for _, p := range []string{"p0", "p1"} {
			for k := rapid.IntRange(0, 2).Draw(t, "vals"); k > 0; k-- {
				g.Nodes[i].AddVal(m.NS+p, m.LV(m.I(nums[rapid.IntRange(0, len(nums)-1).Draw(t, "num")])))
			}
		}
	}
	c.Graph = g
	c.Route = rapid.SampledFrom([]int{0, 0, 1, 2, 3}).Draw(t, "route")
	return c
}

func decideC02Cmp(c c02CmpCase) ev.Verdict {
	y := m.YMap()
	y.Set("profile", m.YStr("c02cmp"))
	y.Set("prefixes", m.YMap().Set("ex", m.YStr(m.NS)))
	y.Set("violation", m.YSeq(m.YStr("v")))
	v := m.YMap().Set("targetClass", m.YStr("ex.Test"))
	// next to a constraint that cannot fail, so that the validation is never empty
	v.Set("propertyConstraints", m.YMap().Set(c.LeftText, m.YMap().Set("minCount", m.YInt(0)).Set(c.Kind, m.YStr(c.RightText))))
	y.Set("validations", m.YMap().Set("v", v))
	text := y.Print(m.YOpts{})
	res := validateVia(c.Route, text, c.Graph.JSONLD(m.LDOpts{}))
	if res.failed() {
		return ev.Violation("c02-call-failed:"+classifyErr(res), "comparison %s %s %s: validation failed: %s\n%s", c.LeftText, c.Kind, c.RightText, trunc(res.errString(), 400), text)
	}
	rep, err := m.ParseReport(res.Report)
	if err != nil {
		return ev.Violation("c02-bad-report", "%v", err)
	}
	reported := map[string]bool{}
	for _, id := range rep.FocusSet("v") {
		reported[id] = true
	}
	nums := func(den map[string]*m.Reached) ([]int64, bool) {
		var out []int64
		for _, r := range den {
			if r.Val.Lit == nil || r.Val.Lit.K != "i" {
				return nil, false // a node among the values: what a comparison makes of it is not specified
			}
			out = append(out, r.Val.Lit.I)
		}
		return out, true
	}
	sawT, sawF := false, false
	for i, n := range c.Graph.Nodes {
		if !n.HasType(classTest) {
			continue
		}
		ls, okL := nums(c.Left.Denote(c.Graph, i))
		rs, okR := nums(c.Right.Denote(c.Graph, i))
		if !okL || !okR {
			continue
		}
		holds := true
		for _, a := range ls {
			for _, b := range rs {
				if (c.Kind == "lessThanProperty" && !(a < b)) || (c.Kind == "lessThanOrEqualsToProperty" && !(a <= b)) {
					holds = false
				}
			}
		}
		if holds {
			sawT = true
		} else {
			sawF = true
		}
		if reported[n.ID] == holds {
			return ev.Violation("c02-comparison-operands", "%s: %s %s from %s: the paths denote %v and %v, so the comparison is %v, but the node was reported=%v\ngraph:\n%s", c.Kind, c.LeftText, c.RightText, n.ID, ls, rs, holds, reported[n.ID], c.Graph)
		}
	}
	return ev.Verdict{OK: true, NonTrivial: sawT && sawF, Labels: []string{fmt.Sprintf("comparison:%s", c.Kind)}}
}

func TestC02Comparison(t *testing.T) {
	ev.Run(t, "C02", genC02Cmp, decideC02Cmp)
}
