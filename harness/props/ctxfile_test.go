package props

import (
	"encoding/json"
	"os"
	"path/filepath"
	"sort"
	"strings"

	"verifharness/ev"
)

// External contexts: a JSON-LD document may name its @context by reference - a path or URL the processor loads -
// alone, in a list next to inline definitions, or through the JSON-LD 1.1 "@import" member. The files live under
// the harness's build directory, named by their content, so a saved case finds them again (decide re-creates them).

func ctxDir() string {
	root := os.Getenv("VERIF_ROOT")
	if root == "" {
		root = os.TempDir()
	}
	d := filepath.Join(root, ".build", "ctx")
	_ = os.MkdirAll(d, 0o755)
	return d
}

// externaliseContext moves the inline @context object of doc into a file and refers to it. mode 1: by path alone;
// 2: a list of the path and an empty inline context; 3: {"@import": path, one entry repeated inline}.
// Returns the new document and the file (path -> content); ok=false when the document has no inline context object.
func externaliseContext(doc string, mode int) (out string, files map[string]string, ok bool) {
	var v any
	dec := json.NewDecoder(strings.NewReader(doc))
	dec.UseNumber()
	if dec.Decode(&v) != nil {
		return doc, nil, false
	}
	top, isObj := v.(map[string]any)
	if !isObj {
		return doc, nil, false
	}
	ctx, isCtx := top["@context"].(map[string]any)
	if !isCtx || len(ctx) == 0 {
		return doc, nil, false
	}
	// @base has no effect when it comes from a referenced context: it stays inline
	base, hasBase := ctx["@base"]
	if hasBase {
		rest := map[string]any{}
		for k, x := range ctx {
			if k != "@base" {
				rest[k] = x
			}
		}
		ctx = rest
		if mode == 1 {
			mode = 2
		}
	}
	content, _ := json.Marshal(map[string]any{"@context": ctx})
	path := filepath.Join(ctxDir(), "ctx-"+ev.Hash(string(content))+".jsonld")
	switch mode {
	case 1:
		top["@context"] = path
	case 2:
		inline := map[string]any{}
		if hasBase {
			inline["@base"] = base
		}
		top["@context"] = []any{path, inline}
	default:
		inline := map[string]any{"@import": path}
		if hasBase {
			inline["@base"] = base
		}
		keys := make([]string, 0, len(ctx))
		for k := range ctx {
			keys = append(keys, k)
		}
		sort.Strings(keys)
		for _, k := range keys {
			if !strings.HasPrefix(k, "@") {
				inline[k] = ctx[k]
				break
			}
		}
		top["@context"] = inline
	}
	b, err := json.Marshal(top)
	if err != nil {
		return doc, nil, false
	}
	return string(b), map[string]string{path: string(content)}, true
}

func writeCtxFiles(files map[string]string) {
	for p, c := range files {
		if _, err := os.Stat(p); err != nil {
			_ = os.MkdirAll(filepath.Dir(p), 0o755)
			_ = os.WriteFile(p, []byte(c), 0o644)
		}
	}
}
