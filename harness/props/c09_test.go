package props

import (
	"encoding/json"
	"fmt"
	"strings"
	"testing"

	"github.com/aml-org/amf-custom-validator/pkg"
	"github.com/open-policy-agent/opa/rego"
	"pgregory.net/rapid"
	"verifharness/ev"
	m "verifharness/model"
)

type c09Op struct {
	Profile int  `json:"profile"`
	Doc     int  `json:"doc"`
	WithCfg bool `json:"with_cfg"`
	// Kind "" = through the compiled profile; "text" = the profile text again, late in the history (must still equal
	// the reference); "intruder" = some other profile is compiled or validated in between
	Kind string `json:"kind,omitempty"`
}

type c09Case struct {
	Profiles     []string `json:"profiles"`
	Docs         []string `json:"docs"`
	DocKinds     []string `json:"doc_kinds"`
	Ops          []c09Op  `json:"ops"`
	FreshProcess bool     `json:"fresh_process"`
	// Intruders are other profiles used in the middle of the history: same terms, but the prefix name the subject
	// profiles rely on (a built-in one, undeclared) is declared with another namespace
	// CtxFiles are context documents some data documents refer to by path (path -> content)
	CtxFiles     map[string]string `json:"ctx_files,omitempty"`
	Intruders    []string          `json:"intruders,omitempty"`
	IntruderDocs []string          `json:"intruder_docs,omitempty"`
}

func genProfileAndGraphs(t *rapid.T, name string, nGraphs int) (string, []*m.Graph, *m.Profile) {
	g := &fgen{t: t, maxAtoms: 4, maxDepth: 3, maxWidth: 3, budget: 7, quant: true, edges: 2, viaPaths: true, constants: true}
	p := &m.Profile{Name: name}
	nv := rapid.IntRange(1, 3).Draw(t, "nv")
	for i := 0; i < nv; i++ {
		g.budget = 6
		p.Validations = append(p.Validations, m.Validation{Name: fmt.Sprintf("v%d", i), Level: pick(t, []string{"violation", "warning", "info"}, "level"), Class: "ex.Test", Body: g.bounded(40),
			Message: pick(t, []string{"", "failed {{ex.p0}}", "plain message", "100% of {{ex.p0}} is 50%d", "%s %v %d"}, "msg")})
	}
	decorateLevelLists(t, p)
	for _, v := range p.Validations {
		v.Body.MarkPolarity(m.Pos)
	}
	var edges []string
	seen := map[string]bool{}
	for _, v := range p.Validations {
		for _, e := range v.Body.Edges() {
			if !seen[e] {
				seen[e] = true
				edges = append(edges, e)
			}
		}
	}
	var graphs []*m.Graph
	for i := 0; i < nGraphs; i++ {
		graphs = append(graphs, randomGraph(t, g.atoms, edges, 5))
	}
	return p.ToY().Print(m.YOpts{}), graphs, p
}

// decorateLevelLists adds names that are listed under a level without being defined (the language ignores them):
// retired names, and near misses of defined names - another letter case, surrounding blanks - which are different
// names all the same.
func decorateLevelLists(t *rapid.T, p *m.Profile) {
	if len(p.Validations) == 0 || rapid.IntRange(0, 2).Draw(t, "undefinedNames") != 0 {
		return
	}
	if p.Undefined == nil {
		p.Undefined = map[string][]string{}
	}
	for _, lvl := range []string{"violation", "warning", "info"} {
		if !rapid.Bool().Draw(t, "undef-"+lvl) {
			continue
		}
		base := p.Validations[rapid.IntRange(0, len(p.Validations)-1).Draw(t, "nearMissOf")].Name
		name := pick(t, []string{"retired-" + lvl, strings.ToUpper(base), strings.Title(base), " " + base, base + " ", base + "\t", base + "_"}, "undefinedName")
		if name == base {
			name = "retired-" + lvl
		}
		p.Undefined[lvl] = append(p.Undefined[lvl], name)
	}
}

func genC09(t *rapid.T) c09Case {
	var c c09Case
	np := rapid.IntRange(1, 2).Draw(t, "profiles")
	// different profiles may carry the same name (and always share validation names): nothing may be keyed by it
	sameName := rapid.Bool().Draw(t, "sameName")
	for i := 0; i < np; i++ {
		name := fmt.Sprintf("c09-%d", i)
		if sameName {
			name = "c09"
		}
		text, graphs, prof := genProfileAndGraphs(t, name, rapid.IntRange(1, 3).Draw(t, "graphs"))
		if rapid.IntRange(0, 3).Draw(t, "documentRule") == 0 {
			// embedded Rego adding a result of its own that does not start from a node of the target class (a
			// statement about the document as a whole): both routes must evaluate it, whatever the data holds
			lvl := prof.Validations[0].Level
			// the condition looks at the document as a whole, in one of several hand-written ways: no instance of a
			// class, the class not even mentioned among the document's classes, the number of classes or of nodes
			cond := pick(t, []string{
				"found := [x | target_class[x] with data.class as \"http://ex.org/v#NeverDeclared\"]\n    count(found) == 0",
				"object.get(input[\"@types\"], \"http://ex.org/v#Other\", null) == null",
				"not input[\"@types\"][\"http://ex.org/v#Test\"]",
				"count(input[\"@types\"]) < 2",
				"count(input[\"@ids\"]) < 3",
				"classes := {c | input[\"@types\"][c]}\n    not classes[\"http://ex.org/v#Other\"]",
			}, "documentCondition")
			text += "rego_extensions: |\n  " + lvl + "[matches] {\n    " + cond + "\n" +
				"    matches := error(\"" + prof.Validations[0].Name + "\", {\"@id\": \"http://ex.org/document\"}, \"the document declares nothing\", [trace(\"declared\", \"http://ex.org/v#NeverDeclared\", {\"@id\": \"http://ex.org/document\"}, {\"negated\": false})])\n  }\n"
		}
		c.Profiles = append(c.Profiles, text)
		for _, g := range graphs {
			genScale(t, g, 16)
			switch rapid.IntRange(0, 3).Draw(t, "lexical") {
			case 0: // with lexical source maps; the root location is unique to this case so that state leaking between calls shows
				sm := genSourceMaps(t, g)
				sm.Root = fmt.Sprintf("file:///root-%d-%d.raml", i, rapid.IntRange(0, 1<<30).Draw(t, "rootToken"))
				c.Docs = append(c.Docs, sm.Attach(g).JSONLD(genLDOpts(t, 0)))
				c.DocKinds = append(c.DocKinds, "graph+sourcemaps")
			case 1: // source maps without the BaseUnitSourceInformation node
				sm := genSourceMaps(t, g)
				sm.NoBase = true
				c.Docs = append(c.Docs, sm.Attach(g).JSONLD(genLDOpts(t, 0)))
				c.DocKinds = append(c.DocKinds, "graph+sourcemaps-without-base")
			default:
				c.Docs = append(c.Docs, g.JSONLD(genLDOpts(t, len(g.Nodes))))
				c.DocKinds = append(c.DocKinds, "graph")
			}
		}
	}
	for _, extra := range []struct{ kind, text string }{{"empty", "[]"}, {"unreadable", "{\"@id\": "}, {"jsonld-rejects", `[{"@id":5}]`}} {
		if rapid.Bool().Draw(t, "extra-"+extra.kind) {
			c.Docs = append(c.Docs, extra.text)
			c.DocKinds = append(c.DocKinds, extra.kind)
		}
	}
	// a readable document followed by something else: the reader takes the first JSON value, on every route
	if rapid.Bool().Draw(t, "extra-trailing") {
		c.Docs = append(c.Docs, c.Docs[0]+pick(t, []string{"\n{\"@id\":\"http://ex.org/second-document\"}", " ]", "\n# a log line", "}\n", " trailing words", "\n[]", ","}, "trailing"))
		c.DocKinds = append(c.DocKinds, "trailing-content")
	}
	// documents that name their @context by reference (a file), several of them sharing one context document
	if rapid.IntRange(0, 2).Draw(t, "externalContext") == 0 {
		c.CtxFiles = map[string]string{}
		for i := range c.Docs {
			if !strings.HasPrefix(c.DocKinds[i], "graph") {
				continue
			}
			if out, files, ok := externaliseContext(c.Docs[i], rapid.IntRange(1, 3).Draw(t, "ctxMode")); ok {
				c.Docs[i] = out
				c.DocKinds[i] += " (context by reference)"
				for p, content := range files {
					c.CtxFiles[p] = content
				}
			}
		}
		// a second document over the same context file: the first graph document again, under another id
		if len(c.CtxFiles) > 0 && strings.Contains(c.DocKinds[0], "by reference") {
			c.Docs = append(c.Docs, strings.ReplaceAll(c.Docs[0], "http://ex.org/n/n0", "http://ex.org/n/other0"))
			c.DocKinds = append(c.DocKinds, "graph (context by reference, shared)")
		}
	}
	// long texts of which the reader consumes only a part (early syntax error, long trailing content)
	if rapid.IntRange(0, 2).Draw(t, "abandonedInput") == 0 {
		c.Docs = append(c.Docs, genAbandonedInput(t, c.Docs[0]))
		c.DocKinds = append(c.DocKinds, "long-text-read-in-part")
	}
	// two documents of the pool that agree in length and in a 32-bit checksum (trailing white space does it):
	// whatever a compiled profile keeps between calls must be keyed by the document, not by a fingerprint of it
	if len(c.Docs) >= 2 && c.DocKinds[0] == "graph" && c.DocKinds[1] == "graph" && rapid.IntRange(0, 3).Draw(t, "collidingDocs") == 0 {
		sum := pick(t, m.Checksums, "checksum")
		if a, b, ok := m.CollideJSON(c.Docs[0], c.Docs[1], sum); ok {
			c.Docs[0], c.Docs[1] = a, b
			c.DocKinds[0], c.DocKinds[1] = "graph colliding with document 1 on "+sum, "graph colliding with document 0 on "+sum
		}
	}
	c.FreshProcess = rapid.IntRange(0, 5).Draw(t, "freshProcess") == 0
	if rapid.IntRange(0, 2).Draw(t, "builtinPrefix") == 0 && len(c.CtxFiles) == 0 {
		name := genBuiltinName(t)
		other := "http://other.example.org/vocab/" + name + "#"
		ok := true
		var subj, intr []string
		for _, p := range c.Profiles {
			s1, ok1 := onBuiltinPrefix(p, name, "")
			s2, ok2 := onBuiltinPrefix(p, name, other)
			ok = ok && ok1 && ok2
			subj, intr = append(subj, s1), append(intr, s2)
		}
		if ok {
			c.Profiles, c.Intruders = subj, intr
			c.IntruderDocs = []string{dataOnNamespace(c.Docs[0], other), "[]"}
			for i := range c.Docs {
				c.Docs[i] = dataOnNamespace(c.Docs[i], builtinNS[name])
			}
		}
	}
	n := rapid.IntRange(3, 20).Draw(t, "ops")
	for i := 0; i < n; i++ {
		op := c09Op{Profile: rapid.IntRange(0, np-1).Draw(t, "p"), Doc: rapid.IntRange(0, len(c.Docs)-1).Draw(t, "d"), WithCfg: rapid.IntRange(0, 3).Draw(t, "cfg") != 0}
		if i > 0 && c.Ops[i-1].Kind != "intruder" && rapid.IntRange(0, 4).Draw(t, "repeat") == 0 {
			op = c.Ops[i-1]
			op.Kind = ""
		}
		switch k := rapid.IntRange(0, 9).Draw(t, "opKind"); {
		case k == 0:
			op.Kind = "text"
		case k <= 2 && len(c.Intruders) > 0:
			op.Kind = "intruder"
			op.Profile = rapid.IntRange(0, len(c.Intruders)-1).Draw(t, "intruder")
			op.Doc = rapid.IntRange(0, len(c.IntruderDocs)-1).Draw(t, "intruderDoc")
		}
		c.Ops = append(c.Ops, op)
	}
	return c
}

// dropDate removes dateCreated (the plain entry points stamp time.Now()).
func dropDate(report string) string {
	var doc any
	if json.Unmarshal([]byte(report), &doc) != nil {
		return report
	}
	if arr, ok := doc.([]any); ok && len(arr) == 1 {
		if root, ok := arr[0].(map[string]any); ok {
			if enc, ok := root["doc:encodes"].([]any); ok && len(enc) == 1 {
				if n, ok := enc[0].(map[string]any); ok {
					delete(n, "dateCreated")
				}
			}
		}
	}
	return m.Canon(doc)
}

func decideC09(c c09Case) ev.Verdict {
	writeCtxFiles(c.CtxFiles)
	qs := make([]*rego.PreparedEvalQuery, len(c.Profiles))
	for i, p := range c.Profiles {
		q, cc := compileProfile(p)
		if cc.failed() {
			return ev.Violation("c09-compile-failed:"+classifyErr(cc), "generated declarative profile does not compile: %s\n%s", trunc(cc.errString(), 400), p)
		}
		qs[i] = q
	}
	type key struct{ p, d int }
	// the references are taken before the history starts (a reference computed in the middle of the history could
	// inherit state leaked by the calls made so far), each by a fresh validation of the profile text
	ref := map[key]call{}
	for p := range c.Profiles {
		for d := range c.Docs {
			ref[key{p, d}] = validateFixed(c.Profiles[p], c.Docs[d])
		}
	}
	fresh := func(k key) call { return ref[k] }
	v := ev.Verdict{OK: true}
	// a sample of the references is confirmed in a fresh process each, where nothing can have leaked
	if c.FreshProcess {
		n := 0
		for p := range c.Profiles {
			for d := range c.Docs {
				r := ref[key{p, d}]
				if r.failed() || n >= 4 {
					continue
				}
				n++
				out, err := freshProcessReport(c06Case{Profile: c.Profiles[p], Data: c.Docs[d]}, n)
				if err != nil {
					return ev.Verdict{Discard: true, Detail: err.Error(), Obs: map[string]int{"helper_failures": 1}}
				}
				if dropDate(out) != dropDate(r.Report) {
					return ev.Violation("c09-in-process-differs-from-fresh-process", "validating profile %d / document %d (%s) in this long-lived process differs from a fresh process\n%s", p, d, c.DocKinds[d], firstDiff(dropDate(out), dropDate(r.Report)))
				}
			}
		}
		v.Labels = append(v.Labels, "confirmed-in-fresh-processes")
	}
	sawFailThenPass, sawErrThenOK, sawRepeat, sawIntruder := false, false, false, false
	prevKind := ""
	for i, op := range c.Ops {
		var got call
		if op.Kind == "intruder" {
			// another profile passes through the process: compiled only, or validated as text
			if op.WithCfg {
				_, cc := compileProfile(c.Intruders[op.Profile])
				got = cc
			} else {
				got = validateFixed(c.Intruders[op.Profile], c.IntruderDocs[op.Doc])
			}
			if got.failed() {
				return ev.Violation("c09-compile-failed:"+classifyErr(got), "step %d: the other profile is rejected: %s\n%s", i, trunc(got.errString(), 400), c.Intruders[op.Profile])
			}
			v.Labels = append(v.Labels, "step:another-profile-rebinding-the-prefix")
			sawIntruder = true
			continue
		}
		if op.Kind == "text" {
			got = validateFixed(c.Profiles[op.Profile], c.Docs[op.Doc])
			if sawIntruder {
				v.Labels = append(v.Labels, "history:text-route-after-another-profile")
			}
		} else if op.WithCfg {
			got = validateCompiledFixed(qs[op.Profile], c.Docs[op.Doc])
		} else {
			got = guard(func() (string, error) { return pkg.ValidateCompiled(qs[op.Profile], c.Docs[op.Doc], false, nil) })
		}
		want := fresh(key{op.Profile, op.Doc})
		if got.Panic != "" || want.Panic != "" {
			return ev.Violation("c09-panic", "step %d: panic: %s / %s", i, got.Panic, want.Panic)
		}
		if (got.Err != nil) != (want.Err != nil) {
			return ev.Violation("c09-error-mismatch", "step %d (%+v, doc kind %s): compiled profile gave err=%v, fresh validation gave err=%v\nhistory: %+v", i, op, c.DocKinds[op.Doc], got.Err, want.Err, c.Ops[:i+1])
		}
		kind := "error"
		if got.Err == nil {
			if dropDate(got.Report) != dropDate(want.Report) {
				return ev.Violation("c09-report-mismatch", "step %d (%+v): report through the compiled profile differs from a fresh validation of the same document\nhistory: %+v\ncompiled:\n%s\nfresh:\n%s", i, op, c.Ops[:i+1], trunc(got.Report, 1500), trunc(want.Report, 1500))
			}
			if op.WithCfg && got.Report != want.Report {
				// byte identity is C06's claim; here only recorded
				v.Obs = map[string]int{"byte_different_but_equal_as_multiset": 1}
			}
			rep, err := m.ParseReport(got.Report)
			if err != nil {
				return ev.Violation("c09-bad-report", "%v", err)
			}
			kind = "pass"
			if len(rep.Results) > 0 {
				kind = "fail"
			}
		}
		if prevKind == "fail" && kind == "pass" {
			sawFailThenPass = true
		}
		if prevKind == "error" && kind != "error" {
			sawErrThenOK = true
		}
		if i > 0 && c.Ops[i-1].Profile == op.Profile && c.Ops[i-1].Doc == op.Doc {
			sawRepeat = true
		}
		prevKind = kind
		v.Labels = append(v.Labels, "step:"+kind)
		if strings.Contains(c.DocKinds[op.Doc], "by reference") {
			v.Labels = append(v.Labels, "step:document-with-context-by-reference:"+kind)
		}
		if strings.Contains(c.DocKinds[op.Doc], "colliding") {
			v.Labels = append(v.Labels, "step:document-with-a-checksum-twin")
		}
	}
	if sawFailThenPass {
		v.Labels = append(v.Labels, "history:fail-then-pass")
	}
	if sawErrThenOK {
		v.Labels = append(v.Labels, "history:error-then-success")
	}
	if sawRepeat {
		v.Labels = append(v.Labels, "history:immediate-repeat")
	}
	v.NonTrivial = len(c.Ops) >= 3 && (sawFailThenPass || sawErrThenOK || sawRepeat)
	if msg := canaryChanged(); msg != "" {
		return ev.Violation("c09-canary-changed", "after this history: %s", msg)
	}
	return v
}

func TestC09(t *testing.T) {
	ev.Run(t, "C09", genC09, decideC09)
}
