package props

import (
	"fmt"
	"regexp"
	"strings"
	"testing"

	"pgregory.net/rapid"
	"verifharness/ev"
	m "verifharness/model"
)

type c15Case struct {
	A        string   `json:"spelling_a"`
	B        string   `json:"spelling_b"`
	Rewrites []string `json:"rewrites"`
	Data     string   `json:"data"`
}

var c15Names = []string{"targetClass", "message", "violation", "validations", "profile", "in", "pattern", "and", "not", "propertyConstraints", "prefixes", "warning", "v0", "v1", "v2", "rego", "if"}

var phRe = regexp.MustCompile(`\{\{\s*ex\.`)

// renamePrefix rewrites uses of prefix `from` into `to` at every place the language reads a compact IRI.
// pickOne decides per occurrence (for aliasing); return true to rename.
func renamePrefix(y *m.Y, from, to string, pickOne func() bool) {
	ren := func(s string) string {
		// compact IRIs inside a path or a single IRI
		re := regexp.MustCompile(`(^|[^A-Za-z0-9_-])` + regexp.QuoteMeta(from) + `\.`)
		return re.ReplaceAllStringFunc(s, func(mm string) string {
			if !pickOne() {
				return mm
			}
			return strings.Replace(mm, from+".", to+".", 1)
		})
	}
	var walk func(x *m.Y, ctx string)
	walk = func(x *m.Y, ctx string) {
		if x.Kind != "map" {
			for _, it := range x.Items {
				walk(it, ctx)
			}
			return
		}
		for i, k := range x.Keys {
			v := x.Vals[i]
			switch {
			case ctx == "propertyConstraints":
				x.Keys[i] = ren(k)
				walk(v, "constraints")
			case k == "propertyConstraints":
				walk(v, "propertyConstraints")
			case k == "targetClass" && v.Kind == "str" && ctx == "validation":
				v.S = ren(v.S)
			case strings.HasSuffix(k, "Property") && v.Kind == "str" && ctx == "constraints":
				v.S = ren(v.S)
			case k == "message" && v.Kind == "str" && ctx == "validation":
				v.S = regexp.MustCompile(`\{\{\s*`+regexp.QuoteMeta(from)+`\.`).ReplaceAllStringFunc(v.S, func(mm string) string {
					if !pickOne() {
						return mm
					}
					return strings.Replace(mm, from+".", to+".", 1)
				})
			case k == "validations" && ctx == "top":
				for _, vv := range v.Vals {
					walk(vv, "validation")
				}
			default:
				next := ctx
				if ctx == "top" {
					next = "other"
				}
				walk(v, next)
			}
		}
	}
	walk(y, "top")
}

// permuteTree reorders mapping keys, level lists and and/or operands.
func permuteTree(t *rapid.T, y *m.Y, top bool, used map[string]bool) {
	switch y.Kind {
	case "map":
		if len(y.Keys) > 1 && rapid.Bool().Draw(t, "permKeys") {
			idx := make([]int, len(y.Keys))
			for i := range idx {
				idx[i] = i
			}
			perm := rapid.Permutation(idx).Draw(t, "keyPerm")
			nk := make([]string, len(idx))
			nv := make([]*m.Y, len(idx))
			for i, j := range perm {
				nk[i], nv[i] = y.Keys[j], y.Vals[j]
			}
			y.Keys, y.Vals = nk, nv
			used["key-order"] = true
		}
		for i, k := range y.Keys {
			v := y.Vals[i]
			if v.Kind == "seq" && len(v.Items) > 1 && ((top && (k == "violation" || k == "warning" || k == "info")) || (!top && (k == "and" || k == "or"))) && rapid.Bool().Draw(t, "permSeq") {
				v.Items = rapid.Permutation(v.Items).Draw(t, "seqPerm")
				if top {
					used["level-list-order"] = true
				} else {
					used["operand-order"] = true
				}
			}
			permuteTree(t, v, false, used)
		}
	case "seq":
		for _, it := range y.Items {
			permuteTree(t, it, false, used)
		}
	}
}

func genYOpts(t *rapid.T, label string) m.YOpts {
	return m.YOpts{
		Indent:    rapid.SampledFrom([]int{2, 2, 3, 4}).Draw(t, label+"Indent"),
		Flow:      rapid.SampledFrom([]int{0, 0, 1, 1, 2, 2, 3}).Draw(t, label+"Flow"),
		Quote:     rapid.IntRange(0, 2).Draw(t, label+"Quote"),
		Comments:  rapid.Bool().Draw(t, label+"Comments"),
		SeqIndent: rapid.Bool().Draw(t, label+"SeqIndent"),
		Header:    rapid.Bool().Draw(t, label+"Header"),
		Literal:   rapid.Bool().Draw(t, label+"Literal"),
		NumStyle:  rapid.SampledFrom([]int{0, 0, 0, 1, 2, 3, 4, 5, 6, 7}).Draw(t, label+"NumStyle"),
	}
}

// blockRichFormula: two or three quantified blocks (nested / atLeast / atMost), some of them holding a block of their
// own, side by side in one or / negated and / conditional - the translator puts them into one rule body, where the
// names it invents for the blocks (allocated in document order) have to stay apart.
func blockRichFormula(t *rapid.T, g *fgen) *m.F {
	block := func(depth int) *m.F {
		var mk func(d int) *m.F
		mk = func(d int) *m.F {
			var body *m.F
			if d > 0 && rapid.Bool().Draw(t, "deeper") {
				body = mk(d - 1)
			} else {
				body = m.AtomF(g.atom())
			}
			kind := rapid.SampledFrom([]string{"nested", "nested", "atLeast", "atMost"}).Draw(t, "blockKind")
			n := 0
			if kind != "nested" {
				n = rapid.IntRange(0, 2).Draw(t, "blockN")
			}
			return m.Quant(kind, fmt.Sprintf("e%d", rapid.IntRange(0, g.edges-1).Draw(t, "blockEdge")), n, body)
		}
		return mk(depth)
	}
	k := rapid.IntRange(2, 3).Draw(t, "blocks")
	ops := make([]*m.F, k)
	for i := range ops {
		ops[i] = block(2)
	}
	switch rapid.IntRange(0, 3).Draw(t, "blockConnective") {
	case 0:
		return m.Or(ops...)
	case 1:
		return m.Not(m.And(ops...))
	case 2:
		return m.If(ops[0], m.Or(ops[1:]...))
	default:
		if k == 3 {
			return m.IfElse(ops[0], ops[1], ops[2])
		}
		return m.Or(ops...)
	}
}

// bigListValidation: `in` over n distinct values none of which occurs in generated data, so that every node holding
// a value of the property fails it - unless the list is cut short somewhere on the way
func bigListValidation(n int, prop string) *m.Y {
	seq := m.YSeq()
	for i := 0; i < n; i++ {
		seq.Items = append(seq.Items, m.YStr(fmt.Sprintf("value-%05d", i)))
	}
	v := m.YMap()
	v.Set("targetClass", m.YStr("ex.Test"))
	v.Set("propertyConstraints", m.YMap().Set("ex."+prop, m.YMap().Set("in", seq)))
	return v
}

func genC15(t *rapid.T) c15Case {
	g := &fgen{t: t, maxAtoms: 5, maxDepth: 3, maxWidth: 3, budget: 8, quant: true, edges: 2, multiPC: rapid.Bool().Draw(t, "multiPC"), constants: true}
	p := &m.Profile{Name: pick(t, []string{"c15", "profile", "validations", "My Profile"}, "pname")}
	nv := rapid.IntRange(1, 4).Draw(t, "nv")
	names := rapid.Permutation(c15Names).Draw(t, "names")[:nv]
	msgs := []string{"", "failed", "message", "targetClass", "value {{ex.p0}} and {{ ex.p1 }}", "violation: {{ex.p0}}", "propertyConstraints", "two lines\nsecond: {{ex.p0}} # not a comment", "- looks like: a list", "ends with a line break\n", "one two three four five {{ex.p0}} six\n"}
	anyWide := false
	for i := 0; i < nv; i++ {
		g.budget = 7
		class := "ex.Test"
		if rapid.IntRange(0, 3).Draw(t, "shapesClass") == 0 {
			class = "shapes.Thing"
		}
		var body *m.F
		if rapid.IntRange(0, 4).Draw(t, "blockRich") == 0 {
			body = blockRichFormula(t, g)
		} else if rapid.IntRange(0, 2).Draw(t, "wideBody") == 0 {
			anyWide = true
			// a wide or/and of small groups: the translator's cross product of failure branches, whose order depends
			// on how the operands print (prefix names, key order)
			g.maxAtoms = 6
			body = wideFormulaMin(t, g, rapid.SampledFrom([]int{2, 4}).Draw(t, "wideMin"))
		} else {
			body = g.bounded(40)
		}
		p.Validations = append(p.Validations, m.Validation{Name: names[i], Level: pick(t, []string{"violation", "warning", "info"}, "level"), Class: class, Body: body, Message: pick(t, msgs, "msg")})
	}
	// names that are listed but not defined (ignored by the language) take part in the level-list permutations
	if rapid.Bool().Draw(t, "undefinedNames") {
		p.Undefined = map[string][]string{}
		for _, l := range []string{"violation", "warning", "info"} {
			if rapid.Bool().Draw(t, "undef-"+l) {
				p.Undefined[l] = []string{"retired-" + l}
			}
		}
	}
	for _, v := range p.Validations {
		v.Body.MarkPolarity(m.Pos)
	}
	gr := randomGraph(t, g.atoms, []string{"e0", "e1"}, 5)
	if anyWide && len(g.atoms) <= 6 {
		// every truth assignment of the atoms: a branch dropped from the cross product shows on some node
		gr = propositionalGraph(t, g.atoms)
	}
	for _, n := range gr.Nodes {
		if rapid.Bool().Draw(t, "thing") {
			n.Types = append(n.Types, "http://a.ml/vocabularies/shapes#Thing")
		}
	}
	ya := p.ToY()
	used := map[string]bool{}
	// embedded Rego operands: several `rego` members of one and/or that print alike (no message of their own)
	// but check different things; reordering the operands must not change which of them are compiled
	regoCodes := []string{
		"$result = (count(object.get($node, \"http://ex.org/v#p0\", [])) > 0)",
		"$result = (count(object.get($node, \"http://ex.org/v#p1\", [])) > 0)",
		"vals = object.get($node, \"http://ex.org/v#note\", [])\n$result = (count(vals) == 0)",
		"$result = (object.get($node, \"http://ex.org/v#e0\", null) != null)",
		// operands that set the message themselves (several of them may end up in one rule body)
		"$message = \"no p0\"\n$result = (count(object.get($node, \"http://ex.org/v#p0\", [])) > 0)",
		"$message = \"no p1\"\n$result = (count(object.get($node, \"http://ex.org/v#p1\", [])) > 0)",
		"$message = \"no note\"\n$result = (count(object.get($node, \"http://ex.org/v#note\", [])) > 0)",
	}
	if vals := ya.Get("validations"); vals != nil && rapid.Bool().Draw(t, "regoOperands") {
		for _, v := range vals.Vals {
			if v.Kind != "map" || rapid.IntRange(0, 1).Draw(t, "wrapRego") != 0 {
				continue
			}
			inner, outer := m.YMap(), m.YMap()
			for i, k := range v.Keys {
				if k == "targetClass" || k == "message" {
					outer.Set(k, v.Vals[i])
				} else {
					inner.Set(k, v.Vals[i])
				}
			}
			ops := []*m.Y{}
			if len(inner.Keys) > 0 {
				ops = append(ops, inner)
			}
			for _, code := range subset(t, regoCodes, 2, 4, "regoCodes") {
				ops = append(ops, m.YMap().Set("rego", m.YStr(code)))
			}
			outer.Set(pick(t, []string{"and", "or"}, "regoConnective"), m.YSeq(ops...))
			v.Keys, v.Vals = outer.Keys, outer.Vals
			used["rego-operands"] = true
		}
	}
	// a long enumeration: in flow style it is one line of some 80 KB (6500 values), and it is a list like any other
	if vals := ya.Get("validations"); vals != nil && rapid.IntRange(0, 5).Draw(t, "longList") == 0 {
		n := rapid.SampledFrom([]int{31, 32, 33, 100, 6500}).Draw(t, "longListLen")
		vals.Set("vlong", bigListValidation(n, "p0"))
		lv := ya.Get("violation")
		if lv == nil {
			lv = m.YSeq()
			ya.Set("violation", lv)
		}
		lv.Items = append(lv.Items, m.YStr("vlong"))
		used[fmt.Sprintf("long-list:%d", n)] = true
	}
	// an `or` of embedded Rego checks that each set their own message and that every node fails: whatever the
	// translator makes of several messages in one rule body, it must not depend on the order of the operands
	if vals := ya.Get("validations"); vals != nil && rapid.IntRange(0, 5).Draw(t, "messageRegos") == 0 {
		ops := m.YSeq()
		for _, x := range subset(t, []string{"zz1", "zz2", "zz3"}, 2, 3, "messageOperands") {
			ops.Items = append(ops.Items, m.YMap().Set("rego", m.YStr("$message = \"no "+x+"\"\n$result = (count(object.get($node, \"http://ex.org/v#"+x+"\", [])) > 0)")))
		}
		vals.Set("vmsg", m.YMap().Set("targetClass", m.YStr("ex.Test")).Set("or", ops))
		lv := ya.Get("violation")
		if lv == nil {
			lv = m.YSeq()
			ya.Set("violation", lv)
		}
		lv.Items = append(lv.Items, m.YStr("vmsg"))
		used["or-of-regos-with-messages"] = true
	}
	// a mapping that carries two expression keys (say propertyConstraints and not): the language reads one of them,
	// whichever it is, and which one must not depend on the order they are written in
	if vals := ya.Get("validations"); vals != nil && rapid.IntRange(0, 4).Draw(t, "twoExpressionKeys") == 0 {
		for _, v := range vals.Vals {
			if v.Kind != "map" || rapid.Bool().Draw(t, "secondKeyHere") {
				continue
			}
			extraPC := m.YMap().Set("ex.p0", m.YMap().Set("minCount", m.YInt(int64(rapid.IntRange(0, 2).Draw(t, "extraMin")))))
			switch k := pick(t, []string{"not", "or", "propertyConstraints", "and", "if"}, "secondKey"); {
			case v.Get(k) != nil:
			case k == "propertyConstraints":
				v.Set(k, extraPC)
			case k == "not":
				v.Set(k, m.YMap().Set("propertyConstraints", extraPC))
			case k == "if":
				v.Set("if", m.YMap().Set("propertyConstraints", extraPC))
				if v.Get("then") == nil {
					v.Set("then", m.YMap().Set("propertyConstraints", m.YMap().Set("ex.p1", m.YMap().Set("minCount", m.YInt(1)))))
				}
			default:
				v.Set(k, m.YSeq(m.YMap().Set("propertyConstraints", extraPC)))
			}
			used["two-expression-keys-in-one-mapping"] = true
		}
	}
	yb := ya.Clone()
	permuteTree(t, yb, true, used)
	switch rapid.IntRange(0, 3).Draw(t, "prefixRewrite") {
	case 1: // consistent renaming ex -> another name, possibly one that shadows a built-in prefix the profile does not otherwise use
		to := pick(t, []string{"zz", "zz", "my-ns", "doc", "core", "data", "meta", "api", "security", "rdfs"}, "renameTo")
		renamePrefix(yb, "ex", to, func() bool { return true })
		pf := yb.Get("prefixes")
		for i, k := range pf.Keys {
			if k == "ex" {
				pf.Keys[i] = to
			}
		}
		used["prefix-renamed"] = true
		if to != "zz" && to != "my-ns" {
			used["prefix-shadows-builtin"] = true
		}
	case 2: // second prefix bound to the same namespace, used interchangeably
		alias := pick(t, []string{"alt", "alt", "doc", "core", "catalog"}, "aliasName")
		renamePrefix(yb, "ex", alias, func() bool { return rapid.Bool().Draw(t, "useAlias") })
		yb.Get("prefixes").Set(alias, m.YStr(m.NS))
		used["prefix-alias"] = true
		if alias != "alt" {
			used["prefix-shadows-builtin"] = true
		}
	case 3: // built-in pair shapes / raml-shapes
		renamePrefix(yb, "shapes", "raml-shapes", func() bool { return rapid.Bool().Draw(t, "useRaml") })
		used["builtin-alias"] = true
	}
	oa, ob := genYOpts(t, "a"), genYOpts(t, "b")
	if oa != ob {
		used["yaml-style"] = true
	}
	c := c15Case{A: ya.Print(oa), B: yb.Print(ob), Data: gr.JSONLD(m.LDOpts{})}
	if m.YAMLMatches(c.A, ya) != nil || m.YAMLMatches(c.B, yb) != nil {
		c.Rewrites = []string{"SELF-CHECK-FAILED"}
		return c
	}
	for k := range used {
		c.Rewrites = append(c.Rewrites, k)
	}
	sortStrings(c.Rewrites)
	return c
}

func sortStrings(s []string) {
	for i := 1; i < len(s); i++ {
		for j := i; j > 0 && s[j] < s[j-1]; j-- {
			s[j], s[j-1] = s[j-1], s[j]
		}
	}
}

func decideC15(c c15Case) ev.Verdict {
	if len(c.Rewrites) == 1 && c.Rewrites[0] == "SELF-CHECK-FAILED" {
		return ev.Verdict{Discard: true, Detail: "a rendering does not parse back to its tree"}
	}
	ra, rb := validateFixed(c.A, c.Data), validateFixed(c.B, c.Data)
	if ra.Panic != "" || rb.Panic != "" {
		return ev.Violation("c15-panic", "panic: %s / %s\nA:\n%s\nB:\n%s", ra.Panic, rb.Panic, c.A, c.B)
	}
	if (ra.Err != nil) != (rb.Err != nil) {
		return ev.Violation("c15-one-spelling-rejected", "one spelling is accepted and the other rejected (rewrites %v): %v / %v\nA:\n%s\nB:\n%s", c.Rewrites, ra.Err, rb.Err, c.A, c.B)
	}
	if ra.Err != nil {
		return ev.Violation("c15-call-failed:"+classifyErr(ra), "generated profile rejected in both spellings: %v\n%s", ra.Err, c.A)
	}
	pa, e1 := m.ParseReport(ra.Report)
	pb, e2 := m.ParseReport(rb.Report)
	if e1 != nil || e2 != nil {
		return ev.Violation("c15-bad-report", "%v %v", e1, e2)
	}
	if pa.Conforms != pb.Conforms || !m.EqualStrings(pa.Quads(), pb.Quads()) {
		return ev.Violation("c15-verdict-depends-on-spelling", "two spellings of one profile (rewrites %v) give different results\nA conforms=%v %v\nB conforms=%v %v\nA:\n%s\nB:\n%s", c.Rewrites, pa.Conforms, pa.Quads(), pb.Conforms, pb.Quads(), c.A, c.B)
	}
	labels := []string{}
	for _, r := range c.Rewrites {
		labels = append(labels, "rewrite:"+r)
	}
	for _, k := range []string{"targetClass", "message", "violation", "validations", "propertyConstraints"} {
		if strings.Contains(c.A, "  "+k+":\n") || strings.Contains(c.A, ": "+k+"\n") {
			labels = append(labels, "keyword-used-as-name-or-text")
			break
		}
	}
	_ = fmt.Sprint
	return ev.Verdict{OK: true, NonTrivial: len(c.Rewrites) >= 2 && len(pa.Results) > 0, Labels: labels}
}

func TestC15(t *testing.T) {
	ev.Run(t, "C15", genC15, decideC15)
}
