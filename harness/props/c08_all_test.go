package props

import (
	"encoding/json"
	"fmt"
	"os"
	"os/exec"
	"path/filepath"
	"regexp"
	"sort"
	"strings"
	"testing"

	"github.com/aml-org/amf-custom-validator/pkg"
	"github.com/open-policy-agent/opa/ast"
	"github.com/open-policy-agent/opa/types"
	"pgregory.net/rapid"
	"verifharness/ev"
)

// argLiteral builds a Rego literal of the declared type, so that the call type-checks.
func argLiteral(t types.Type) string {
	switch x := t.(type) {
	case types.String:
		return `"a"`
	case types.Number:
		return "1"
	case types.Boolean:
		return "true"
	case types.Null:
		return "null"
	case *types.Array:
		return "[]"
	case *types.Object:
		return "{}"
	case *types.Set:
		return "set()"
	case types.Any:
		if len(x) > 0 {
			return argLiteral(x[0])
		}
		return "1"
	case *types.NamedType:
		return argLiteral(x.Type)
	}
	return "1"
}

func builtinCall(b *ast.Builtin) string {
	var args []string
	if b.Decl != nil {
		for _, a := range b.Decl.FuncArgs().Args {
			args = append(args, argLiteral(a))
		}
	}
	return b.Name + "(" + strings.Join(args, ", ") + ")"
}

func registeredBuiltins() []*ast.Builtin {
	bs := append([]*ast.Builtin{}, ast.Builtins...)
	sort.Slice(bs, func(i, j int) bool { return bs[i].Name < bs[j].Name })
	return bs
}

type c08AllCase struct {
	Builtin  string `json:"builtin"`
	Call     string `json:"call"`
	Position string `json:"position"`
	Syntax   string `json:"syntax"`
	Nondet   bool   `json:"engine_flags_nondeterministic"`
}

// TestHelperC08Eval evaluates a profile in this (traced) process.
func TestHelperC08Eval(t *testing.T) {
	in := os.Getenv("C08_HELPER_PROFILE")
	if in == "" {
		t.Skip("helper only")
	}
	b, err := os.ReadFile(in)
	if err != nil {
		t.Fatal(err)
	}
	_ = guard(func() (string, error) { return pkg.Validate(string(b), c08Data, false, nil) })
}

var inetRe = regexp.MustCompile(`(?m)^.*\b(connect|sendto|sendmsg|bind)\(.*sa_family=AF_INET6?.*$`)
var inetSocketRe = regexp.MustCompile(`(?m)^.*\bsocket\(AF_INET6?,.*$`)

func tracedNetworkAttempts(profile string) (lines []string, err error) {
	dir := scratchDir()
	pf := filepath.Join(dir, "c08profile.yaml")
	out := filepath.Join(dir, "c08strace.out")
	if err := os.WriteFile(pf, []byte(profile), 0o644); err != nil {
		return nil, err
	}
	_ = os.Remove(out)
	cmd := exec.Command("strace", "-f", "-e", "trace=network", "-o", out, os.Args[0], "-test.run", "^TestHelperC08Eval$", "-test.count=1")
	cmd.Env = append(os.Environ(), "C08_HELPER_PROFILE="+pf, "VERIF_RUN_DIR=", "VERIF_REPLAY=")
	if o, err := cmd.CombinedOutput(); err != nil {
		return nil, fmt.Errorf("traced helper failed: %v: %s", err, trunc(string(o), 300))
	}
	b, err := os.ReadFile(out)
	if err != nil {
		return nil, err
	}
	lines = append(lines, inetRe.FindAllString(string(b), -1)...)
	lines = append(lines, inetSocketRe.FindAllString(string(b), -1)...)
	return lines, nil
}

func decideC08All(c c08AllCase) ev.Verdict {
	profile := c08Profile(c.Position, c.Call, c.Syntax)
	q, cc := compileProfile(profile)
	if cc.Panic != "" {
		return ev.Violation("c08-panic", "panic: %s", cc.Panic)
	}
	_, named := deniedCalls[c.Builtin]
	if cc.Err != nil || q == nil {
		msg := cc.errString()
		if strings.Contains(msg, "unsafe built-in") {
			return ev.Verdict{OK: true, NonTrivial: true, Labels: []string{"denied:" + c.Builtin}}
		}
		if named {
			return ev.Verdict{Discard: true, Detail: "named built-in rejected for another reason: " + trunc(msg, 200), Obs: map[string]int{"rejected_for_other_reason": 1}}
		}
		return ev.Verdict{Discard: true, Detail: "call does not compile (type/arity): " + trunc(msg, 200), Obs: map[string]int{"calls_not_compiling": 1}}
	}
	if named {
		return ev.Violation("c08-accepted:"+c.Builtin, "a profile calling %s (position %s, syntax %s) was accepted\n%s", c.Builtin, c.Position, c.Syntax, profile)
	}
	// accepted: evaluating it must not attempt any network connection
	lines, err := tracedNetworkAttempts(profile)
	if err != nil {
		return ev.Verdict{Discard: true, Detail: err.Error(), Obs: map[string]int{"strace_unavailable": 1}}
	}
	if len(lines) > 0 {
		return ev.Violation("c08-network-attempt:"+c.Builtin, "evaluating an accepted profile that calls %s made network system calls:\n%s\nprofile:\n%s", c.Builtin, strings.Join(lines, "\n"), profile)
	}
	labels := []string{"accepted-and-traced"}
	if c.Nondet {
		labels = append(labels, "accepted-nondeterministic:"+c.Builtin)
	}
	return ev.Verdict{OK: true, NonTrivial: true, Labels: labels, Obs: map[string]int{"traced_evaluations": 1}}
}

// TestC08AllBuiltins: every built-in registered in the linked engine, one (position, syntax) each per round.
func TestC08AllBuiltins(t *testing.T) {
	shards, idx := shardEnv()
	bs := registeredBuiltins()
	ev.Note("C08", "registered_builtins", 0)
	if idx == 0 {
		ev.Note("C08", "registered_builtins", len(bs))
	}
	var mine []*ast.Builtin
	for i, b := range bs {
		if i%shards == idx {
			mine = append(mine, b)
		}
	}
	if len(mine) == 0 {
		return
	}
	ev.Run(t, "C08", func(rt *rapid.T) c08AllCase {
		b := mine[rapid.IntRange(0, len(mine)-1).Draw(rt, "builtin")]
		return c08AllCase{Builtin: b.Name, Call: builtinCall(b), Position: pick(rt, c08Positions, "position"), Syntax: pick(rt, []string{"statement", "unify", "assign", "array-comprehension", "argument"}, "syntax"), Nondet: b.Nondeterministic}
	}, decideC08All)
	_ = json.Marshal
}

// TestC08Census compiles one call of every registered built-in (fixed position and syntax) and traces the accepted ones.
func TestC08Census(t *testing.T) {
	shards, idx := shardEnv()
	var cases []c08AllCase
	for i, b := range registeredBuiltins() {
		if i%shards == idx {
			cases = append(cases, c08AllCase{Builtin: b.Name, Call: builtinCall(b), Position: "top-rego", Syntax: "assign", Nondet: b.Nondeterministic})
		}
	}
	ev.RunFixed(t, "C08", cases, decideC08All)
}
