package props

import (
	"fmt"

	"pgregory.net/rapid"
	m "verifharness/model"
)

// fgen builds random formulas.
type fgen struct {
	t          *rapid.T
	atoms      []*m.Atom
	maxAtoms   int
	maxDepth   int
	maxWidth   int
	quant      bool  // allow nested/atLeast/atMost
	edges      int   // number of edge properties e0..e(edges-1)
	rows       []int // allowed rows of the atom table (nil = all)
	allRows    bool  // also draw the table-only rows (compile-only generators)
	budget     int   // remaining formula nodes (connectives + leaves); <=0 forces single-atom leaves
	multiPC    bool  // bias leaves towards several constraints (and several quantifiers) in one propertyConstraints map
	companions bool  // add always-true constraints (minCount 0 / maxCount 9) next to atoms, under the same key
	viaPaths   bool  // let some atoms constrain a two-step path `ex.l<id> / ex.p<id>` (required for uniqueValues)
	constants  bool  // let some operands be formulas that cannot fail (a lone minCount 0)
}

func (g *fgen) newAtom() *m.Atom {
	if len(g.atoms) >= g.maxAtoms {
		return g.atoms[rapid.IntRange(0, len(g.atoms)-1).Draw(g.t, "reuseAtom")]
	}
	var row int
	if g.rows != nil {
		row = g.rows[rapid.IntRange(0, len(g.rows)-1).Draw(g.t, "row")]
	} else {
		row = m.DrawableRows[rapid.IntRange(0, len(m.DrawableRows)-1).Draw(g.t, "row")]
		if g.allRows && rapid.IntRange(0, 3).Draw(g.t, "boundaryRow") == 0 {
			// compile-only generators also use the rows that cannot take both truth values (empty lists, zero bounds)
			row = rapid.IntRange(0, len(m.AtomTable)-1).Draw(g.t, "anyRow")
		}
	}
	id := len(g.atoms)
	a := &m.Atom{ID: id, Row: row, Prop: fmt.Sprintf("p%d", id)}
	switch cl := m.AtomTable[row].Class; {
	case cl == "cmp":
		a.Prop2 = fmt.Sprintf("q%d", id)
	case cl == "unique":
		if !g.viaPaths { // uniqueValues only means something over a path: fall back to a plain count atom
			a.Row = rowOf("minCount")
		} else {
			a.Via = fmt.Sprintf("l%d", id)
		}
	case g.viaPaths && rapid.IntRange(0, 5).Draw(g.t, "via") == 0:
		a.Via = fmt.Sprintf("l%d", id)
	}
	g.atoms = append(g.atoms, a)
	return a
}

func (g *fgen) atom() *m.Atom {
	if len(g.atoms) > 0 && rapid.IntRange(0, 5).Draw(g.t, "reuse") == 0 {
		return g.atoms[rapid.IntRange(0, len(g.atoms)-1).Draw(g.t, "which")]
	}
	return g.newAtom()
}

// leaf builds a propertyConstraints formula with 1..3 constraints.
func (g *fgen) leaf(depth int) *m.F {
	f := &m.F{Op: "pc"}
	n := 1
	g.budget--
	if g.budget <= 0 {
		a := g.atom()
		f.PC = append(f.PC, m.PCEntry{Prop: a.Prop, Cs: []m.C{{Kind: "atom", Atom: a}}})
		return f
	}
	if g.multiPC {
		n = rapid.IntRange(2, 4).Draw(g.t, "pcN")
	} else if rapid.IntRange(0, 3).Draw(g.t, "multiPC") == 0 {
		n = rapid.IntRange(2, 3).Draw(g.t, "pcN")
	}
	usedProp := map[string]bool{}
	for i := 0; i < n; i++ {
		if g.quant && depth < g.maxDepth && (rapid.IntRange(0, 2).Draw(g.t, "isQuant") == 0 || (g.multiPC && rapid.Bool().Draw(g.t, "isQuant2"))) {
			edge := fmt.Sprintf("e%d", rapid.IntRange(0, g.edges-1).Draw(g.t, "edge"))
			kind := rapid.SampledFrom([]string{"nested", "nested", "atLeast", "atMost"}).Draw(g.t, "qkind")
			if usedProp[edge+"/"+kind] {
				continue
			}
			usedProp[edge+"/"+kind] = true
			c := m.C{Kind: kind, Body: g.formula(depth + 1)}
			if kind != "nested" {
				c.N = rapid.IntRange(0, 3).Draw(g.t, "qn")
			}
			// group under an existing entry for the same edge
			placed := false
			for k := range f.PC {
				if f.PC[k].Prop == edge {
					f.PC[k].Cs = append(f.PC[k].Cs, c)
					placed = true
				}
			}
			if !placed {
				f.PC = append(f.PC, m.PCEntry{Prop: edge, Cs: []m.C{c}})
			}
			continue
		}
		a := g.atom()
		if usedProp[a.Prop] {
			continue
		}
		usedProp[a.Prop] = true
		e := m.PCEntry{Prop: a.Prop, Cs: []m.C{{Kind: "atom", Atom: a}}}
		// an always-true companion under the same key: several constraints in one constraint map are a conjunction
		if g.companions && rapid.IntRange(0, 3).Draw(g.t, "companion") == 0 {
			switch k := a.R().Kind; {
			case k != "minCount" && rapid.Bool().Draw(g.t, "companionKind"):
				e.Extra = append(e.Extra, m.ExtraC{Kind: "minCount", Arg: m.YInt(0)})
			case k != "maxCount":
				e.Extra = append(e.Extra, m.ExtraC{Kind: "maxCount", Arg: m.YInt(9)})
			}
		}
		f.PC = append(f.PC, e)
	}
	if len(f.PC) == 0 {
		a := g.atom()
		f.PC = append(f.PC, m.PCEntry{Prop: a.Prop, Cs: []m.C{{Kind: "atom", Atom: a}}})
	}
	return f
}

// trueLeaf is a formula that holds on every node: a propertyConstraints map whose only constraint cannot fail
// (minCount 0, maxCount 9 over a property nobody has more than four values of). The reference evaluator knows it as
// a conjunction without conjuncts. Such operands are legitimate ("optional property") and are where a translator
// that drops what cannot fail meets the connectives around it.
func (g *fgen) trueLeaf() *m.F {
	g.budget--
	prop := fmt.Sprintf("t%d", rapid.IntRange(0, 1).Draw(g.t, "trueProp"))
	extra := m.ExtraC{Kind: "minCount", Arg: m.YInt(0)}
	if rapid.IntRange(0, 3).Draw(g.t, "trueKind") == 0 {
		extra = m.ExtraC{Kind: "maxCount", Arg: m.YInt(9)}
	}
	return &m.F{Op: "pc", PC: []m.PCEntry{{Prop: prop, Extra: []m.ExtraC{extra}}}}
}

func (g *fgen) formula(depth int) *m.F {
	if depth > 0 && g.constants && rapid.IntRange(0, 11).Draw(g.t, "constantOperand") == 0 {
		return g.trueLeaf()
	}
	if depth >= g.maxDepth || g.budget <= 1 {
		return g.leaf(depth)
	}
	g.budget--
	switch rapid.IntRange(0, 9).Draw(g.t, "op") {
	case 0, 1, 2:
		return g.leaf(depth)
	case 3, 4:
		return &m.F{Op: "and", Sub: g.subs(depth)}
	case 5, 6:
		return &m.F{Op: "or", Sub: g.subs(depth)}
	case 7:
		return m.Not(g.formula(depth + 1))
	case 8:
		return m.If(g.formula(depth+1), g.formula(depth+1))
	default:
		return m.IfElse(g.formula(depth+1), g.formula(depth+1), g.formula(depth+1))
	}
}

// bounded draws a formula whose estimated number of generated rule bodies stays under limit (the translator's
// expansion is multiplicative, so a small formula can cost minutes); falls back to smaller budgets, then to one atom.
func (g *fgen) bounded(limit int) *m.F {
	budget := g.budget
	for try := 0; try < 4; try++ {
		g.budget = budget
		f := g.formula(0)
		if f.Cost() <= limit {
			return f
		}
		budget = budget/2 + 1
	}
	return m.AtomF(g.atom())
}

func (g *fgen) subs(depth int) []*m.F {
	n := rapid.IntRange(1, g.maxWidth).Draw(g.t, "width")
	out := make([]*m.F, n)
	for i := range out {
		out[i] = g.formula(depth + 1)
	}
	return out
}

// ---------------------------------------------------------------- witnesses

func pick[T any](t *rapid.T, xs []T, label string) T {
	return xs[rapid.IntRange(0, len(xs)-1).Draw(t, label)]
}

func subset[T any](t *rapid.T, xs []T, min, max int, label string) []T {
	if max > len(xs) {
		max = len(xs)
	}
	if min > max {
		min = max
	}
	k := rapid.IntRange(min, max).Draw(t, label+"N")
	perm := rapid.Permutation(xs).Draw(t, label)
	return perm[:k]
}

var fillers = []m.Lit{m.S("v0"), m.S("v1"), m.S("v2"), m.S("v3"), m.I(10)}

// assign gives node n values for atom a aiming at truth value want.
// exact=true forces the smallest witness (single-valued where applicable).
const classAux = m.NS + "Aux"

// assign gives node ni of g values for atom a aiming at truth value want. For an atom over a path (a.Via) the
// values are spread over auxiliary child nodes appended to g.
func assign(t *rapid.T, g *m.Graph, ni int, a *m.Atom, want bool, exact bool) {
	if a.Via == "" {
		assignDirect(t, g.Nodes[ni], a, want, exact)
		return
	}
	p := m.NS + a.Prop
	var groups [][]m.Lit // values of each child
	if a.R().Class == "unique" {
		pool := []m.Lit{m.S("x"), m.S("y"), m.S("z"), m.I(4)}
		if exact {
			groups = [][]m.Lit{{pool[0]}}
			if !want {
				groups = append(groups, []m.Lit{pool[0]})
			}
		} else if want {
			for _, l := range subset(t, pool, 0, 3, "uniq") {
				groups = append(groups, []m.Lit{l})
			}
		} else {
			dup := pick(t, pool, "dup")
			groups = [][]m.Lit{{dup}, {dup}}
			for _, l := range subset(t, pool, 0, 2, "uniqExtra") {
				groups = append(groups, []m.Lit{l})
			}
		}
	} else {
		tmp := &m.Node{Props: map[string][]m.Val{}}
		assignDirect(t, tmp, a, want, exact)
		vals := tmp.Lits(p)
		if exact || a.NeedsSingle() || len(vals) <= 1 {
			groups = [][]m.Lit{vals}
			if len(vals) == 0 && !exact && rapid.Bool().Draw(t, "noChild") {
				groups = nil
			}
		} else {
			k := rapid.IntRange(1, minInt(3, len(vals))).Draw(t, "children")
			groups = make([][]m.Lit, k)
			for i, v := range vals {
				groups[i%k] = append(groups[i%k], v)
			}
		}
	}
	for _, grp := range groups {
		ci := g.Add(classAux)
		g.Nodes[ni].AddVal(m.NS+a.Via, m.NV(ci))
		for _, l := range grp {
			g.Nodes[ci].AddVal(p, m.LV(l))
		}
	}
}

func assignDirect(t *rapid.T, n *m.Node, a *m.Atom, want bool, exact bool) {
	r := a.R()
	p := m.NS + a.Prop
	single := exact || a.NeedsSingle()
	switch r.Class {
	case "value":
		if single {
			if want {
				n.AddVal(p, m.LV(pick(t, r.Sat, "sat")))
			} else {
				n.AddVal(p, m.LV(pick(t, r.Viol, "viol")))
			}
			return
		}
		if want {
			for _, l := range subset(t, r.Sat, 0, 3, "sats") {
				n.AddVal(p, m.LV(l))
			}
		} else {
			for _, l := range subset(t, r.Viol, 1, 2, "viols") {
				n.AddVal(p, m.LV(l))
			}
			for _, l := range subset(t, r.Sat, 0, 2, "sats") {
				n.AddVal(p, m.LV(l))
			}
		}
	case "count":
		var ok []int
		for c := 0; c <= 4; c++ {
			var tv bool
			switch r.Kind {
			case "minCount":
				tv = c >= r.N
			case "maxCount":
				tv = c <= r.N
			default:
				tv = c == r.N
			}
			if tv == want {
				ok = append(ok, c)
			}
		}
		if len(ok) == 0 {
			ok = []int{rapid.IntRange(0, 4).Draw(t, "anyCount")}
		}
		c := pick(t, ok, "count")
		for _, l := range subset(t, fillers, c, c, "fill") {
			n.AddVal(p, m.LV(l))
		}
	case "set":
		inSet := func(l m.Lit) bool {
			for _, s := range r.Set {
				if l.AsString() == s {
					return true
				}
			}
			return false
		}
		var members, others []m.Lit
		for _, l := range m.SetPool {
			if inSet(l) {
				members = append(members, l)
			} else {
				others = append(others, l)
			}
		}
		var vals []m.Lit
		if r.Kind == "containsAll" {
			if want {
				vals = append(vals, members...)
				vals = append(vals, subset(t, others, 0, 2, "extra")...)
			} else {
				vals = append(vals, subset(t, members, 0, len(members)-1, "some")...)
				vals = append(vals, subset(t, others, 0, 2, "extra")...)
				if len(vals) == 0 {
					vals = append(vals, others[0])
				}
			}
		} else {
			if want {
				vals = append(vals, subset(t, members, 1, len(members), "some")...)
				vals = append(vals, subset(t, others, 0, 2, "extra")...)
			} else {
				vals = append(vals, subset(t, others, 1, 3, "extra")...)
			}
		}
		for _, l := range vals {
			n.AddVal(p, m.LV(l))
		}
	case "cmp":
		p2 := m.NS + a.Prop2
		if single {
			type pair struct{ a, b int64 }
			var good []pair
			for _, x := range m.CmpPool {
				for _, y := range m.CmpPool {
					var tv bool
					switch r.Kind {
					case "lessThanProperty":
						tv = x.I < y.I
					case "lessThanOrEqualsToProperty":
						tv = x.I <= y.I
					case "equalsToProperty":
						tv = x.I == y.I
					default:
						tv = x.I != y.I
					}
					if tv == want {
						good = append(good, pair{x.I, y.I})
					}
				}
			}
			pr := pick(t, good, "pair")
			n.AddVal(p, m.LV(m.I(pr.a)))
			n.AddVal(p2, m.LV(m.I(pr.b)))
			return
		}
		for _, l := range subset(t, m.CmpPool, 0, 2, "as") {
			n.AddVal(p, m.LV(l))
		}
		for _, l := range subset(t, m.CmpPool, 0, 2, "bs") {
			n.AddVal(p2, m.LV(l))
		}
	}
}

const (
	classTest  = m.NS + "Test"
	classOther = m.NS + "Other"
)

// propositionalGraph makes one target node per truth assignment of atoms.
func propositionalGraph(t *rapid.T, atoms []*m.Atom) *m.Graph {
	g := &m.Graph{}
	k := len(atoms)
	for mask := 0; mask < 1<<k; mask++ {
		i := g.Add(classTest)
		for j, a := range atoms {
			assign(t, g, i, a, mask&(1<<j) != 0, true)
		}
	}
	return g
}

// randomGraph makes a graph where every node carries values for every atom and
// edges e0..e(edges-1) are drawn freely (self-loops, cycles, shared children).
func randomGraph(t *rapid.T, atoms []*m.Atom, edges []string, maxNodes int) *m.Graph {
	n := rapid.IntRange(1, maxNodes).Draw(t, "nodes")
	g := &m.Graph{}
	for i := 0; i < n; i++ {
		switch rapid.IntRange(0, 4).Draw(t, "class") {
		case 4:
			// a node without any class (reached through edges only); one literal keeps it a node of the
			// flattened document rather than a dangling reference
			u := g.Add()
			g.Nodes[u].AddVal(m.NS+"note", m.LV(m.S("untyped")))
		case 0:
			g.Add(classOther)
		case 1:
			g.Add(classTest, classOther)
		default:
			g.Add(classTest)
		}
	}
	for i := 0; i < n; i++ {
		nd := g.Nodes[i]
		for _, a := range atoms {
			assign(t, g, i, a, rapid.Bool().Draw(t, "truth"), false)
		}
		for _, e := range edges {
			k := rapid.IntRange(0, 3).Draw(t, "deg")
			for j := 0; j < k; j++ {
				nd.AddVal(m.NS+e, m.NV(rapid.IntRange(0, n-1).Draw(t, "tgt")))
			}
			if k > 0 && rapid.IntRange(0, 9).Draw(t, "litInEdge") == 0 {
				nd.AddVal(m.NS+e, m.LV(m.S("stray")))
			}
		}
	}
	return g
}

func graphShape(g *m.Graph, edges []string) []string {
	var labels []string
	selfLoop, shared, cyc := false, false, false
	indeg := map[int]int{}
	for i, n := range g.Nodes {
		for _, e := range edges {
			for _, c := range n.Children(m.NS + e) {
				if c == i {
					selfLoop = true
				}
				indeg[c]++
				for _, e2 := range edges {
					for _, c2 := range g.Nodes[c].Children(m.NS + e2) {
						if c2 == i && c != i {
							cyc = true
						}
					}
				}
			}
		}
	}
	for _, d := range indeg {
		if d > 1 {
			shared = true
		}
	}
	if selfLoop {
		labels = append(labels, "graph:self-loop")
	}
	if shared {
		labels = append(labels, "graph:shared-child")
	}
	if cyc {
		labels = append(labels, "graph:2-cycle")
	}
	return labels
}
