package props

import (
	"fmt"
	"regexp"
	"strings"
	"testing"

	"pgregory.net/rapid"
	"verifharness/ev"
	m "verifharness/model"
)

// dangerous pieces by class
var c13Classes = map[string][]string{
	"dquote":    {`"`, `""`, `"x"`},
	"squote":    {`'`, `''`, `it's`},
	"backslash": {`\`, `\\`, `\n`, `\"`, `\u0041`, `C:\dir`},
	"percent":   {`%`, `%v`, `%d`, `%%`, `%s`, `100%`, `%!`},
	"braces":    {`{`, `}`, `{{`, `}}`, `{{ }}`, `{{nodot}}`, `{x}`},
	"dollar":    {`$`, `$node`, `$result`, `$message`, `$traceNode`},
	"backtick":  {"`", "``"},
	"hash":      {`#`, ` # not a comment`},
	"colon":     {`:`, `: `, `a: b`},
	"newline":   {"\n", "line1\nline2", "\n\n"},
	"tab":       {"\t"},
	"nonascii":  {"é", "ñandú", "中文", "😀", "Ünï"},
	"space":     {" ", "  "},
	"rego":      {`]`, `)`, `") { true }`, `"; x := 1 #`, `|`, `}`},
	// control characters other than tab and line feed, and the Unicode line and paragraph separators
	"control": {"\x1b", "\x1b[31mred\x1b[0m", "\f", "\a", "\b", "\v", "\r", "\x1f", "\x7f", "\x00", "\u0085", "\u2028", "\u2029", "\ufeff"},
}

var c13ClassNames = []string{"dquote", "squote", "backslash", "percent", "braces", "dollar", "backtick", "hash", "colon", "newline", "tab", "nonascii", "space", "rego", "control"}

type c13Text struct {
	S       string   `json:"s"`
	Classes []string `json:"classes"`
}

func genC13Text(t *rapid.T, label string, forced string) c13Text {
	var sb strings.Builder
	var classes []string
	n := rapid.IntRange(1, 5).Draw(t, label+"Pieces")
	forcedAt := rapid.IntRange(0, n-1).Draw(t, label+"ForcedAt")
	for i := 0; i < n; i++ {
		if i == forcedAt && forced != "" {
			sb.WriteString(pick(t, c13Classes[forced], label+"Forced"))
			classes = append(classes, forced)
			continue
		}
		if rapid.Bool().Draw(t, label+"Plain") {
			sb.WriteString(rapid.StringMatching(`[A-Za-z0-9]{1,6}`).Draw(t, label+"Word"))
			continue
		}
		c := pick(t, c13ClassNames, label+"Class")
		sb.WriteString(pick(t, c13Classes[c], label+"Piece"))
		classes = append(classes, c)
	}
	return c13Text{S: sb.String(), Classes: classes}
}

type c13Case struct {
	Name        c13Text          `json:"profile_name"`
	VName       c13Text          `json:"validation_name"`
	Message     c13Text          `json:"message"`
	Holders     []string         `json:"placeholders"` // property local names used in placeholders, in order of appearance
	Value       c13Text          `json:"list_value"`
	ListKind    string           `json:"list_kind"`  // in | containsAll | containsSome
	NodeProps   map[string]m.Lit `json:"node_props"` // values of the reported node for placeholder properties (absent = null)
	ProfileText string           `json:"profile_text"`
	Route       int              `json:"route,omitempty"` // entry point producing the report (see validateVia)
	Debug       bool             `json:"debug,omitempty"` // the entry points' debug flag
	// Sibling, when set, names a second validation of the same level with the same message and body: a name that
	// differs from the first only in letter case, punctuation or one character (names are text, not identifiers)
	Sibling string `json:"sibling,omitempty"`
}

func c13SiblingName(t *rapid.T, name string) string {
	cands := []string{strings.ToUpper(name), strings.ToLower(name), strings.NewReplacer(".", "-", "-", "_", "_", ".", " ", "_").Replace(name), name + ".", name + " ", "-" + name, name + "必"}
	rs := []rune(name)
	if len(rs) > 0 {
		rs[len(rs)-1] = '版'
		cands = append(cands, string(rs))
	}
	var ok []string
	for _, c := range cands {
		if c != name && c != "" {
			ok = append(ok, c)
		}
	}
	return ok[rapid.IntRange(0, len(ok)-1).Draw(t, "siblingName")]
}

var placeholderRe = regexp.MustCompile(`\{\{\s*([\w-]+\.[\w-]+)\s*}}`)

func genC13(t *rapid.T) c13Case {
	var c c13Case
	positions := []string{"name", "vname", "message", "value"}
	forcedPos := pick(t, positions, "forcedPos")
	forcedClass := pick(t, c13ClassNames, "forcedClass")
	f := func(pos string) string {
		if pos == forcedPos {
			return forcedClass
		}
		return ""
	}
	c.Name = genC13Text(t, "name", f("name"))
	c.VName = genC13Text(t, "vname", f("vname"))
	c.Value = genC13Text(t, "value", f("value"))
	c.Message = genC13Text(t, "message", f("message"))
	// splice 0..3 placeholders into the message
	nh := rapid.IntRange(0, 3).Draw(t, "placeholders")
	c.NodeProps = map[string]m.Lit{}
	msg := c.Message.S
	for i := 0; i < nh; i++ {
		prop := fmt.Sprintf("h%d", rapid.IntRange(0, 2).Draw(t, "hprop"))
		sp1 := pick(t, []string{"", " ", "  "}, "sp1")
		sp2 := pick(t, []string{"", " "}, "sp2")
		ph := "{{" + sp1 + "ex." + prop + sp2 + "}}"
		// insert at a rune boundary
		runes := []rune(msg)
		pos := rapid.IntRange(0, len(runes)).Draw(t, "hpos")
		msg = string(runes[:pos]) + ph + string(runes[pos:])
		if _, ok := c.NodeProps[prop]; !ok && rapid.IntRange(0, 3).Draw(t, "hpresent") != 0 {
			c.NodeProps[prop] = pick(t, []m.Lit{m.S("abc"), m.S("Xy9"), m.I(42), m.B(true), m.B(false), m.I(0), m.I(-7), m.S("false"), m.S("null"), m.S("0")}, "hval")
		}
	}
	c.Message.S = msg
	for _, mm := range placeholderRe.FindAllStringSubmatch(msg, -1) {
		c.Holders = append(c.Holders, mm[1])
	}
	c.ListKind = pick(t, []string{"in", "containsAll", "containsSome"}, "listKind")

	y := m.YMap()
	y.Set("profile", m.YStr(c.Name.S))
	y.Set("prefixes", m.YMap().Set("ex", m.YStr(m.NS)))
	y.Set("violation", m.YSeq(m.YStr(c.VName.S)))
	v := m.YMap()
	v.Set("targetClass", m.YStr("ex.Test"))
	v.Set("message", m.YStr(c.Message.S))
	v.Set("propertyConstraints", m.YMap().Set("ex.pv", m.YMap().Set(c.ListKind, m.YSeq(m.YStr(c.Value.S)))))
	_ = y
	_ = v
	if rapid.IntRange(0, 3).Draw(t, "sibling") == 0 && c.VName.S != "" {
		c.Sibling = c13SiblingName(t, c.VName.S)
	}
	c.ProfileText = c13Tree(c).Print(m.YOpts{Quote: 1})
	c.Route = rapid.SampledFrom([]int{0, 0, 1, 2, 3}).Draw(t, "route")
	c.Debug = rapid.IntRange(0, 2).Draw(t, "debug") == 0
	return c
}

func c13Tree(c c13Case) *m.Y {
	y := m.YMap()
	y.Set("profile", m.YStr(c.Name.S))
	y.Set("prefixes", m.YMap().Set("ex", m.YStr(m.NS)))
	names := []string{c.VName.S}
	if c.Sibling != "" {
		names = append(names, c.Sibling)
	}
	lv := m.YSeq()
	vs := m.YMap()
	for _, name := range names {
		lv.Items = append(lv.Items, m.YStr(name))
		v := m.YMap()
		v.Set("targetClass", m.YStr("ex.Test"))
		if name == c.Sibling {
			v.Set("message", m.YStr(c.Message.S+" (the other one)")) // same placeholders, another text
		} else {
			v.Set("message", m.YStr(c.Message.S))
		}
		pc := m.YMap().Set("ex.pv", m.YMap().Set(c.ListKind, m.YSeq(m.YStr(c.Value.S))))
		if c.Sibling != "" {
			// a second conjunct that always holds: the validation then has more than one way of failing in the
			// generated policy, as most real validations do
			pc.Set("ex.zz", m.YMap().Set("maxCount", m.YInt(5)))
		}
		v.Set("propertyConstraints", pc)
		vs.Set(name, v)
	}
	y.Set("violation", lv)
	y.Set("validations", vs)
	return y
}

func litSprintf(l m.Lit) string {
	switch l.K {
	case "s":
		return l.S
	case "i":
		return fmt.Sprint(l.I)
	case "b":
		return fmt.Sprint(l.B)
	}
	return fmt.Sprint(l.F)
}

func decideC13(c c13Case) ev.Verdict {
	if err := m.YAMLMatches(c.ProfileText, c13Tree(c)); err != nil {
		return ev.Verdict{Discard: true, Detail: err.Error()}
	}
	// every placeholder the validator will see must be one we spliced in (ex.h0..h2)
	for _, h := range c.Holders {
		if !strings.HasPrefix(h, "ex.h") || len(h) != 5 {
			return ev.Verdict{Discard: true, Detail: "accidental placeholder " + h}
		}
	}
	if c.VName.S == "" || c.Name.S == "" || c.Message.S == "" {
		return ev.Verdict{Discard: true, Detail: "empty text"}
	}
	// data: node good holds exactly the list value, node bad holds another value and the placeholder properties
	g := &m.Graph{}
	good := g.Add(classTest)
	bad := g.Add(classTest)
	g.Nodes[good].AddVal(m.NS+"pv", m.LV(m.S(c.Value.S)))
	g.Nodes[bad].AddVal(m.NS+"pv", m.LV(m.S("other-value-"+ev.Hash(c.Value.S))))
	for p, l := range c.NodeProps {
		g.Nodes[bad].AddVal(m.NS+p, m.LV(l))
	}
	res := validateViaDebug(c.Route, c.Debug, c.ProfileText, g.JSONLD(m.LDOpts{}))
	labels := []string{}
	for _, x := range []struct {
		pos string
		t   c13Text
	}{{"name", c.Name}, {"vname", c.VName}, {"message", c.Message}, {"value", c.Value}} {
		for _, cl := range x.t.Classes {
			labels = append(labels, x.pos+"×"+cl)
		}
	}
	labels = append(labels, fmt.Sprintf("placeholders:%d", len(c.Holders)), "list:"+c.ListKind)
	where := func() string {
		return fmt.Sprintf("profile name %q, validation name %q, message %q, %s value %q", c.Name.S, c.VName.S, c.Message.S, c.ListKind, c.Value.S)
	}
	if res.failed() {
		return ev.Violation("c13-does-not-compile:"+classifyErr(res), "profile with special characters is rejected: %s\n%s\nprofile:\n%s", trunc(res.errString(), 500), where(), c.ProfileText)
	}
	rep, err := m.ParseReport(res.Report)
	if err != nil {
		return ev.Violation("c13-bad-report", "%v", err)
	}
	if rep.ProfileName != c.Name.S {
		return ev.Violation("c13-profile-name-altered", "profileName %q, written %q", rep.ProfileName, c.Name.S)
	}
	var focus []string
	for _, r := range rep.Results {
		focus = append(focus, r.Focus)
	}
	wantResults := 1
	if c.Sibling != "" {
		wantResults = 2
		labels = append(labels, "sibling-validation-with-a-similar-name")
	}
	if len(rep.Results) != wantResults {
		return ev.Violation("c13-meaning-changed", "the node holding exactly the listed value must pass and the other node must fail (once per validation); reported: %v\n%s", short(focus), where())
	}
	for _, x := range rep.Results {
		if x.Focus != g.Nodes[bad].ID {
			return ev.Violation("c13-meaning-changed", "the node holding exactly the listed value must pass and the other node must fail; reported: %v\n%s", short(focus), where())
		}
	}
	r := rep.Results[0]
	if c.Sibling != "" {
		// one result per validation, each under its own name, with the same message
		a, b := rep.Results[0], rep.Results[1]
		if !((a.Shape == c.VName.S && b.Shape == c.Sibling) || (a.Shape == c.Sibling && b.Shape == c.VName.S)) {
			return ev.Violation("c13-validation-name-altered", "sourceShapeNames %q and %q, written %q and %q", a.Shape, b.Shape, c.VName.S, c.Sibling)
		}
		if a.Shape != c.VName.S {
			a, b = b, a
		}
		r = a
		if b.Message != a.Message+" (the other one)" {
			return ev.Violation("c13-message-altered", "two validations whose messages differ by a suffix report %q and %q", a.Message, b.Message)
		}
	}
	if r.Shape != c.VName.S {
		return ev.Violation("c13-validation-name-altered", "sourceShapeName %q, written %q", r.Shape, c.VName.S)
	}
	want := placeholderRe.ReplaceAllStringFunc(c.Message.S, func(ph string) string {
		mm := placeholderRe.FindStringSubmatch(ph)
		if l, ok := c.NodeProps[strings.TrimPrefix(mm[1], "ex.")]; ok {
			return litSprintf(l)
		}
		return "null"
	})
	want = strings.ReplaceAll(want, `"`, `'`)
	if r.Message != want {
		return ev.Violation("c13-message-altered", "resultMessage %q\nexpected      %q\nmessage as written %q (placeholder values %v)", r.Message, want, c.Message.S, c.NodeProps)
	}
	nt := len(c.Name.Classes)+len(c.VName.Classes)+len(c.Message.Classes)+len(c.Value.Classes) > 0
	return ev.Verdict{OK: true, NonTrivial: nt, Labels: labels}
}

func TestC13(t *testing.T) {
	ev.Run(t, "C13", genC13, decideC13)
}
