package props

import (
	"bytes"
	"encoding/binary"
	"encoding/json"
	"fmt"
	"os"
	"os/exec"
	"path/filepath"
	"strings"
	"sync"
	"testing"
	"unicode/utf16"

	"github.com/aml-org/amf-custom-validator/pkg"
	"github.com/aml-org/amf-custom-validator/pkg/config"
	"github.com/open-policy-agent/opa/rego"
	"github.com/piprate/json-gold/ld"
	"pgregory.net/rapid"
	"verifharness/ev"
	m "verifharness/model"
)

type c04Case struct {
	Profile int    `json:"profile"` // index into c04Profiles
	Class   string `json:"class"`
	Entry   string `json:"entry"`
	Data    []byte `json:"data"` // base64 in JSON: may be invalid UTF-8
	Debug   bool   `json:"debug"`
	Text    string `json:"text_preview"`
}

var c04Profiles = []string{
	"profile: c04a\nprefixes:\n  ex: \"http://ex.org/v#\"\nviolation:\n- v0\nvalidations:\n  v0:\n    targetClass: ex.Test\n    propertyConstraints:\n      ex.p0:\n        minCount: 1\n",
	"profile: c04b\nprefixes:\n  ex: \"http://ex.org/v#\"\nwarning:\n- w0\nviolation:\n- v0\nvalidations:\n  v0:\n    targetClass: ex.Test\n    not:\n      propertyConstraints:\n        ex.e0:\n          nested:\n            propertyConstraints:\n              ex.p0:\n                pattern: ^a+$\n  w0:\n    targetClass: ex.Other\n    or:\n    - propertyConstraints:\n        ex.p1:\n          in: [a, b]\n    - propertyConstraints:\n        ex.p2:\n          maxCount: 0\n",
	"profile: c04c\nvalidations: {}\n",
}

var (
	c04Mu       sync.Mutex
	c04Compiled = map[int]*rego.PreparedEvalQuery{}
)

func c04Query(i int) (*rego.PreparedEvalQuery, error) {
	c04Mu.Lock()
	defer c04Mu.Unlock()
	if q, ok := c04Compiled[i]; ok {
		return q, nil
	}
	q, c := compileProfile(c04Profiles[i])
	if c.failed() {
		return nil, fmt.Errorf("%s", c.errString())
	}
	c04Compiled[i] = q
	return q, nil
}

func smallGraph(t *rapid.T) *m.Graph {
	atoms := []*m.Atom{{ID: 0, Row: rowOf("pattern"), Prop: "p0"}, {ID: 1, Row: rowOf("in"), Prop: "p1"}, {ID: 2, Row: rowOf("maxCount"), Prop: "p2"}}
	return randomGraph(t, atoms, []string{"e0"}, 4)
}

// rowOf returns the first row of the atom table with the given constraint kind.
func rowOf(kind string) int {
	for i, r := range m.AtomTable {
		if r.Kind == kind {
			return i
		}
	}
	return 0
}

func genLDOpts(t *rapid.T, n int) m.LDOpts {
	o := m.LDOpts{
		Context:    rapid.Bool().Draw(t, "ctx"),
		Embed:      rapid.Bool().Draw(t, "embed"),
		GraphWrap:  rapid.IntRange(0, 2).Draw(t, "wrap"),
		KeyRot:     rapid.IntRange(0, 3).Draw(t, "keyrot"),
		Unwrap1:    rapid.Bool().Draw(t, "unwrap1"),
		TypeString: rapid.Bool().Draw(t, "typestr"),
		TypeRev:    rapid.Bool().Draw(t, "typerev"),
		NativeLit:  rapid.Bool().Draw(t, "native"),
		DupValues:  rapid.Bool().Draw(t, "dup"),
		SplitNodes: rapid.Bool().Draw(t, "split"),
		Indent:     rapid.SampledFrom([]int{0, 0, 2, 4}).Draw(t, "indent"),
	}
	if o.Context {
		o.Vocab = rapid.Bool().Draw(t, "vocab")
		o.Base = rapid.Bool().Draw(t, "base")
		o.XsdPrefix = rapid.Bool().Draw(t, "xsdPrefix")
		o.Aliases = rapid.Bool().Draw(t, "aliases")
		o.Coerce = rapid.Bool().Draw(t, "coerce")
	}
	o.EmptyProps = rapid.IntRange(0, 3).Draw(t, "emptyProps") == 0
	o.Reverse = rapid.IntRange(0, 2).Draw(t, "reverse") == 0
	o.SetObj = rapid.IntRange(0, 2).Draw(t, "setObj") == 0
	if n > 1 && rapid.Bool().Draw(t, "reorder") {
		idx := make([]int, n)
		for i := range idx {
			idx[i] = i
		}
		o.NodeOrder = rapid.Permutation(idx).Draw(t, "order")
	}
	// scale: a document padded with white space beyond the sizes at which buffers, chunking or "large input" paths start
	if rapid.IntRange(0, 11).Draw(t, "padded") == 0 {
		o.PadBytes = rapid.SampledFrom([]int{70_000, 300_000, 600_000, 1_200_000}).Draw(t, "padBytes")
	}
	return o
}

// genScale gives the graph filler nodes (hundreds of inert nodes, optionally blank ones) in one case out of `one in`.
func genScale(t *rapid.T, g *m.Graph, oneIn int) {
	if rapid.IntRange(0, oneIn-1).Draw(t, "bulk") != 0 {
		return
	}
	g.Bulk = rapid.SampledFrom([]int{130, 300, 600, 1100}).Draw(t, "bulkNodes")
	g.BulkBlank = rapid.Bool().Draw(t, "bulkBlank")
}

var nonJSONTexts = []string{
	"#%RAML 1.0\ntitle: API\nversion: v1\n/users:\n  get:\n    responses:\n      200:\n        body:\n          application/json:\n            type: string\n",
	"openapi: 3.0.0\ninfo:\n  title: x\n  version: '1'\npaths: {}\n",
	"#%Validation Profile 1.0\nprofile: x\nvalidations: {}\n",
	"<rdf:RDF xmlns:rdf=\"http://www.w3.org/1999/02/22-rdf-syntax-ns#\"></rdf:RDF>",
	"@prefix ex: <http://ex.org/v#> .\nex:a ex:b ex:c .\n",
	"not json", "{", "[", "[1,2", "{\"a\":", "{\"@id\": \"x\"", "nul", "tru", "'single'", "{'a': 1}", "{a: 1}", "[1,]", "{\"a\":1,}",
	"\ufeff{}", "NaN", "undefined", "// comment\n{}", "\x00", "{\"a\":\"\x01\"}",
}

func utf16Bytes(s string, big, bom bool) []byte {
	u := utf16.Encode([]rune(s))
	var b bytes.Buffer
	var bo binary.ByteOrder = binary.LittleEndian
	if big {
		bo = binary.BigEndian
	}
	if bom {
		_ = binary.Write(&b, bo, uint16(0xfeff))
	}
	for _, x := range u {
		_ = binary.Write(&b, bo, x)
	}
	return b.Bytes()
}

func utf32Bytes(s string, big bool) []byte {
	var b bytes.Buffer
	var bo binary.ByteOrder = binary.LittleEndian
	if big {
		bo = binary.BigEndian
	}
	_ = binary.Write(&b, bo, uint32(0xfeff))
	for _, r := range s {
		_ = binary.Write(&b, bo, uint32(r))
	}
	return b.Bytes()
}

// ldMutations invalidates a parsed JSON-LD document at a node chosen by pick.
var ldMutationNames = []string{"id-number", "id-bool", "id-object", "type-number", "type-object", "context-number", "vocab-number", "language-number", "base-number",
	"value-with-id", "value-object", "value-language-number", "value-type-number", "reverse-scalar", "keyword-redefined", "term-number", "context-array-number", "id-array", "list-of-value-object", "index-number", "included-scalar", "container-array-number", "protected-number"}

func firstNode(doc any) map[string]any {
	switch x := doc.(type) {
	case []any:
		for _, e := range x {
			if n := firstNode(e); n != nil {
				return n
			}
		}
	case map[string]any:
		if g, ok := x["@graph"]; ok {
			if n := firstNode(g); n != nil {
				return n
			}
		}
		if _, ok := x["@id"]; ok {
			return x
		}
	}
	return nil
}

// lastNode is the node a reader meets last (the mutation then sits at the end of a possibly long document)
func lastNode(doc any) map[string]any {
	switch x := doc.(type) {
	case []any:
		for i := len(x) - 1; i >= 0; i-- {
			if n := lastNode(x[i]); n != nil {
				return n
			}
		}
	case map[string]any:
		if g, ok := x["@graph"]; ok {
			if n := lastNode(g); n != nil {
				return n
			}
		}
		if _, ok := x["@id"]; ok {
			return x
		}
	}
	return nil
}

func applyLDMutation(doc any, name string) any {
	late := strings.HasSuffix(name, "@last-node")
	name = strings.TrimSuffix(name, "@last-node")
	n := firstNode(doc)
	if late {
		n = lastNode(doc)
	}
	if n == nil {
		n = map[string]any{"@id": "http://ex.org/n/x"}
		doc = []any{n}
	}
	prop := m.NS + "zz"
	switch name {
	case "id-number":
		n["@id"] = 5
	case "id-bool":
		n["@id"] = true
	case "id-object":
		n["@id"] = map[string]any{"a": 1}
	case "id-array":
		n["@id"] = []any{"http://ex.org/a", "http://ex.org/b"}
	case "type-number":
		n["@type"] = 5
	case "type-object":
		n["@type"] = map[string]any{"a": 1}
	case "context-number":
		n["@context"] = 5
	case "context-array-number":
		n["@context"] = []any{map[string]any{}, 7}
	case "vocab-number":
		n["@context"] = map[string]any{"@vocab": 5}
	case "language-number":
		n["@context"] = map[string]any{"@language": 5}
	case "base-number":
		n["@context"] = map[string]any{"@base": 5}
	case "term-number":
		n["@context"] = map[string]any{"term": 5}
	case "keyword-redefined":
		n["@context"] = map[string]any{"@type": "http://ex.org/x"}
	case "value-with-id":
		n[prop] = map[string]any{"@value": "x", "@id": "http://ex.org/y"}
	case "value-object":
		n[prop] = map[string]any{"@value": map[string]any{"a": 1}}
	case "value-language-number":
		n[prop] = map[string]any{"@value": "x", "@language": 5}
	case "value-type-number":
		n[prop] = map[string]any{"@value": "x", "@type": 5}
	case "reverse-scalar":
		n["@reverse"] = "scalar"
	case "list-of-value-object":
		n[prop] = map[string]any{"@list": []any{map[string]any{"@value": []any{1, 2}}}}
	case "index-number":
		n[prop] = map[string]any{"@value": "x", "@index": 5}
	case "included-scalar":
		n["@included"] = "scalar"
	case "container-array-number":
		n["@context"] = map[string]any{"term": map[string]any{"@id": "http://ex.org/t", "@container": []any{5}}}
	case "protected-number":
		n["@context"] = map[string]any{"@protected": 1, "term": "http://ex.org/t"}
	}
	return doc
}

func genC04(t *rapid.T) c04Case {
	c := c04Case{
		Profile: rapid.IntRange(0, len(c04Profiles)-1).Draw(t, "profile"),
		Entry:   rapid.SampledFrom([]string{"Validate", "ValidateWithConfiguration", "ValidateCompiled", "ValidateCompiledWithConfiguration", "cli", "Validate x8 at once", "ValidateCompiled x8 at once"}).Draw(t, "entry"),
		Debug:   rapid.Bool().Draw(t, "debug"),
	}
	g := smallGraph(t)
	opts := genLDOpts(t, len(g.Nodes))
	if rapid.IntRange(0, 2).Draw(t, "amfShape") == 0 {
		// the shape the upstream parser emits (flat @graph, absolute IRIs, wrapped values): where shortcuts for
		// "already normal" documents apply
		opts = m.LDOpts{GraphWrap: 1, Unwrap1: rapid.Bool().Draw(t, "amfUnwrap"), Indent: rapid.SampledFrom([]int{0, 2}).Draw(t, "amfIndent")}
	}
	valid := g.JSONLD(opts)
	switch rapid.IntRange(0, 7).Draw(t, "class") {
	case 0, 1:
		c.Class = "strict-prefix"
		cut := rapid.IntRange(0, len(valid)-1).Draw(t, "cut")
		c.Data = []byte(valid[:cut])
	case 2:
		c.Class = "whitespace-only"
		c.Data = []byte(rapid.StringMatching(`[ \n\t\r]{0,6}`).Draw(t, "ws"))
	case 3:
		c.Class = "wrong-encoding"
		switch rapid.IntRange(0, 5).Draw(t, "enc") {
		case 0:
			c.Data = utf16Bytes(valid, false, true)
		case 1:
			c.Data = utf16Bytes(valid, true, true)
		case 2:
			c.Data = utf16Bytes(valid, false, false)
		case 3:
			c.Data = utf32Bytes(valid, false)
		case 4:
			c.Data = utf32Bytes(valid, true)
		default:
			pos := rapid.IntRange(0, len(valid)).Draw(t, "ffpos")
			c.Data = append(append([]byte(valid[:pos]), 0xff, 0xfe), valid[pos:]...)
		}
	case 4:
		c.Class = "random-bytes"
		c.Data = rapid.SliceOfN(rapid.Byte(), 1, 40).Draw(t, "bytes")
	case 5:
		c.Class = "non-json-format"
		if rapid.IntRange(0, 4).Draw(t, "ownProfile") == 0 {
			c.Data = []byte(c04Profiles[c.Profile])
		} else {
			c.Data = []byte(pick(t, nonJSONTexts, "text"))
		}
	default:
		c.Class = "jsonld-rejects"
		var doc any
		dec := json.NewDecoder(strings.NewReader(valid))
		dec.UseNumber()
		if err := dec.Decode(&doc); err != nil {
			t.Fatalf("harness: generated document does not parse: %v", err)
		}
		name := pick(t, ldMutationNames, "mutation")
		if rapid.Bool().Draw(t, "atLastNode") {
			name += "@last-node"
		}
		c.Class += ":" + name
		b, _ := json.Marshal(applyLDMutation(doc, name))
		c.Data = b
	}
	c.Text = trunc(string(c.Data), 200)
	return c
}

// unreadable confirms the precondition with the trusted libraries:
// "json" = no complete JSON value can be read; "jsonld" = JSON-LD processing rejects it.
func unreadable(data []byte) string {
	dec := json.NewDecoder(bytes.NewReader(data))
	dec.UseNumber()
	var v any
	if err := dec.Decode(&v); err != nil {
		return "json"
	}
	if ldRejects(v) {
		return "jsonld"
	}
	return ""
}

// ldRejects: json-gold returns an error (or panics, which some malformed documents make it do) on the document.
func ldRejects(v any) (rejects bool) {
	defer func() {
		if recover() != nil {
			rejects = true
		}
	}()
	_, err := ld.NewJsonLdProcessor().Flatten(v, map[string]any{}, ld.NewJsonLdOptions(""))
	return err != nil
}

func runACV(args ...string) (stdout, stderr string, exit int, err error) {
	return runACVIn("", args...)
}

// runACVIn runs the CLI with dir as its working directory ("" = inherit)
func runACVIn(dir string, args ...string) (stdout, stderr string, exit int, err error) {
	bin := os.Getenv("ACV_BIN")
	if bin == "" {
		return "", "", 0, fmt.Errorf("ACV_BIN not set")
	}
	cmd := exec.Command(bin, args...)
	cmd.Dir = dir
	var so, se bytes.Buffer
	cmd.Stdout, cmd.Stderr = &so, &se
	e := cmd.Run()
	if e != nil {
		if ee, ok := e.(*exec.ExitError); ok {
			return so.String(), se.String(), ee.ExitCode(), nil
		}
		return "", "", 0, e
	}
	return so.String(), se.String(), 0, nil
}

func scratchDir() string {
	d := os.Getenv("VERIF_SCRATCH")
	if d == "" {
		d = filepath.Join(os.TempDir(), "verif-scratch")
	}
	d = filepath.Join(d, fmt.Sprintf("p%d", os.Getpid()))
	_ = os.MkdirAll(d, 0o755)
	return d
}

func looksLikeReport(s string) bool {
	return strings.Contains(s, "doc:encodes") || strings.Contains(s, "\"conforms\"")
}

func decideC04(c c04Case) ev.Verdict {
	kind := unreadable(c.Data)
	if kind == "" {
		return ev.Verdict{Discard: true, Detail: "input is readable JSON-LD after all"}
	}
	data := string(c.Data)
	profile := c04Profiles[c.Profile]
	labels := []string{"class:" + c.Class, "entry:" + c.Entry, "precondition:" + kind}
	var res call
	switch c.Entry {
	case "Validate":
		res = guard(func() (string, error) { return pkg.Validate(profile, data, c.Debug, nil) })
	case "ValidateWithConfiguration":
		res = guard(func() (string, error) {
			return pkg.ValidateWithConfiguration(profile, data, c.Debug, nil, clock0, config.DefaultReportConfiguration())
		})
	case "ValidateCompiled", "ValidateCompiledWithConfiguration":
		q, err := c04Query(c.Profile)
		if err != nil {
			return ev.Violation("c04-profile-does-not-compile", "fixed declarative profile %d does not compile: %v", c.Profile, err)
		}
		if c.Entry == "ValidateCompiled" {
			res = guard(func() (string, error) { return pkg.ValidateCompiled(q, data, c.Debug, nil) })
		} else {
			res = guard(func() (string, error) {
				return pkg.ValidateCompiledWithConfiguration(q, data, c.Debug, nil, clock0, config.DefaultReportConfiguration())
			})
		}
	case "Validate x8 at once", "ValidateCompiled x8 at once":
		// the same unreadable text handed to eight callers at the same moment: each of them gets the error
		q, err := c04Query(c.Profile)
		if err != nil {
			return ev.Violation("c04-profile-does-not-compile", "fixed declarative profile %d does not compile: %v", c.Profile, err)
		}
		outs := make([]call, 8)
		var wg sync.WaitGroup
		start := make(chan struct{})
		for i := range outs {
			wg.Add(1)
			go func(i int) {
				defer wg.Done()
				<-start
				if strings.HasPrefix(c.Entry, "ValidateCompiled") {
					outs[i] = guard(func() (string, error) { return pkg.ValidateCompiled(q, data, c.Debug, nil) })
				} else {
					outs[i] = guard(func() (string, error) { return pkg.Validate(profile, data, c.Debug, nil) })
				}
			}(i)
		}
		close(start)
		wg.Wait()
		res = outs[0]
		for _, o := range outs {
			if o.Panic != "" || o.Err == nil || o.Report != "" {
				res = o // judged below like a single call
			}
		}
	case "cli":
		if os.Getenv("ACV_BIN") == "" {
			return ev.Verdict{Discard: true, Detail: "no acv binary"}
		}
		dir := scratchDir()
		pf, df, of := filepath.Join(dir, "p.yaml"), filepath.Join(dir, "d.jsonld"), filepath.Join(dir, "out.json")
		_ = os.WriteFile(pf, []byte(profile), 0o644)
		_ = os.WriteFile(df, c.Data, 0o644)
		_ = os.Remove(of)
		so, _, exit, err := runACV("validate", pf, df)
		if err != nil {
			return ev.Verdict{Discard: true, Detail: err.Error()}
		}
		if exit == 0 || looksLikeReport(so) {
			return ev.Violation("verdict-on-unreadable-data:cli", "acv validate on unreadable data (%s): exit %d, stdout %q", c.Class, exit, trunc(so, 300))
		}
		_, _, exit2, _ := runACV("validate", pf, df, of)
		if b, err := os.ReadFile(of); exit2 == 0 || (err == nil && len(b) > 0) {
			return ev.Violation("verdict-on-unreadable-data:cli-file", "acv validate P D OUT on unreadable data: exit %d, output file holds %q", exit2, trunc(string(b), 300))
		}
		return ev.Verdict{OK: true, NonTrivial: true, Labels: labels}
	}
	if res.Panic != "" {
		return ev.Violation("panic-on-unreadable-data@"+panicSite(res.Stack), "%s on %s input %q panicked: %s", c.Entry, c.Class, trunc(data, 200), trunc(res.Panic, 300))
	}
	if res.Err == nil || res.Report != "" {
		conf := ""
		if rep, err := m.ParseReport(res.Report); err == nil {
			conf = fmt.Sprintf(" (conforms=%v)", rep.Conforms)
		}
		return ev.Violation("verdict-on-unreadable-data", "%s on %s input %q (precondition: %s unreadable): err=%v, report returned%s: %s", c.Entry, c.Class, trunc(data, 200), kind, res.Err, conf, trunc(res.Report, 200))
	}
	return ev.Verdict{OK: true, NonTrivial: true, Labels: labels}
}

func TestC04(t *testing.T) {
	ev.Run(t, "C04", genC04, decideC04)
}
