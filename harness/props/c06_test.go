package props

import (
	"encoding/json"
	"fmt"
	"github.com/open-policy-agent/opa/rego"
	"os"
	"os/exec"
	"path/filepath"
	"strings"
	"sync"
	"testing"

	"pgregory.net/rapid"
	"verifharness/ev"
	m "verifharness/model"
)

type c06Case struct {
	Profile string `json:"profile"`
	Data    string `json:"data"`
	Procs   bool   `json:"fresh_processes"` // also compare across fresh processes and `acv generate`
	// Before lists inputs validated in this process before the subject: another profile (and its data) that binds
	// the prefix name the subject uses to another namespace. A fresh process has no such history.
	Before [][2]string `json:"before,omitempty"`
	// BeforeData lists documents validated with the subject's profile before the subject's data, whatever they
	// yield: a document the reader abandons early (syntax error near the start of a long text) or reads only the
	// first value of (long trailing content). What the reader did not consume must not reach the next call.
	BeforeData []string `json:"before_data,omitempty"`
}

func genC06(t *rapid.T) c06Case {
	g := &fgen{t: t, maxAtoms: 5, maxDepth: 3, maxWidth: 3, budget: 8, quant: true, edges: 3, multiPC: true, constants: true}
	// the policy's package name is derived from the profile name: whatever is derived is the same in every process
	p := &m.Profile{Name: pick(t, []string{"c06", "c06", "Política de APIs", "プロファイル", "naïve-rules", "Ünïcode ✓"}, "pname")}
	nv := rapid.IntRange(1, 3).Draw(t, "nv")
	for i := 0; i < nv; i++ {
		g.budget = 7
		body := g.bounded(20) // every case validates the same inputs some twenty times
		if rapid.IntRange(0, 2).Draw(t, "wrapNot") == 0 && m.Not(body).Cost() <= 20 {
			body = m.Not(body)
		}
		p.Validations = append(p.Validations, m.Validation{Name: fmt.Sprintf("v%d", i), Level: pick(t, []string{"violation", "warning", "info"}, "level"), Class: "ex.Test", Body: body})
	}
	// constraint keys that are path expressions (alternatives inside sequences inside alternatives, inverse steps):
	// the names the translator invents while walking them must not depend on the process
	pathsUsed := false
	if rapid.IntRange(0, 2).Draw(t, "pathKeys") == 0 {
		ops := 0
		for _, v := range p.Validations {
			decoratePaths(t, v.Body, &ops)
		}
		pathsUsed = ops > 0
	}
	for _, v := range p.Validations {
		v.Body.MarkPolarity(m.Pos)
	}
	gr := randomGraph(t, g.atoms, []string{"e0", "e1", "e2"}, 5)
	data := gr.JSONLD(m.LDOpts{})
	if rapid.IntRange(0, 2).Draw(t, "lexical") == 0 {
		// lexical source maps, possibly with conflicting duplicates (two source maps for one node, two source-information
		// nodes): whichever wins, it has to be the same one every time
		sm := genSourceMaps(t, gr)
		sm.Conflicts = rapid.Bool().Draw(t, "conflicts")
		data = sm.Attach(gr).JSONLD(genLDOpts(t, 0))
	}
	c := c06Case{Profile: p.ToY().Print(m.YOpts{}), Data: data, Procs: rapid.IntRange(0, 3).Draw(t, "procs") == 0 || pathsUsed || p.Name != "c06"}
	// a long enumeration (whatever the translator does with long lists must come out the same in every process)
	if rapid.IntRange(0, 4).Draw(t, "longList") == 0 {
		c.Profile = appendValidation(c.Profile, "vlong", bigListValidation(rapid.SampledFrom([]int{31, 32, 33, 64, 100, 300}).Draw(t, "longListLen"), "p0"))
		c.Procs = true
	}
	// siblings that print alike but are different rules (a list ["a,b"] next to the list [a, b]; two embedded Rego
	// checks without a message of their own): whatever order the translator puts them in, it is the same in every process
	if rapid.IntRange(0, 4).Draw(t, "lookAlikes") == 0 {
		y := func(s string) *m.Y { return m.YMap().Set("propertyConstraints", m.YMap().Set("ex.p0", m.YMap().Set("in", m.YSeq(m.YStr(s))))) }
		two := m.YMap().Set("propertyConstraints", m.YMap().Set("ex.p0", m.YMap().Set("in", m.YSeq(m.YStr("a"), m.YStr("b")))))
		vm := m.YMap()
		vm.Set("targetClass", m.YStr("ex.Test"))
		vm.Set(pick(t, []string{"or", "and"}, "lookAlikeConnective"), m.YSeq(y("a,b"), two, y("b"), y("a, b")))
		c.Profile = appendValidation(c.Profile, "vtwins", vm)
		vr := m.YMap()
		vr.Set("targetClass", m.YStr("ex.Test"))
		vr.Set(pick(t, []string{"and", "or"}, "regoConnective"), m.YSeq(
			m.YMap().Set("rego", m.YStr("$result = (count(object.get($node, \"http://ex.org/v#p0\", [])) > 0)")),
			m.YMap().Set("rego", m.YStr("$result = (count(object.get($node, \"http://ex.org/v#p1\", [])) > 0)")),
			m.YMap().Set("rego", m.YStr("$result = (object.get($node, \"http://ex.org/v#e0\", null) != null)"))))
		c.Profile = appendValidation(c.Profile, "vregos", vr)
		c.Procs = true
	}
	// process history: the subject relies on a built-in prefix; earlier in the same process a profile with the
	// same terms bound that name to its own namespace. Fresh processes are the reference.
	if rapid.IntRange(0, 3).Draw(t, "history") == 0 {
		name := genBuiltinName(t)
		if subj, ok := onBuiltinPrefix(c.Profile, name, ""); ok {
			other := "http://other.example.org/vocab/" + name + "#"
			if intr, ok2 := onBuiltinPrefix(c.Profile, name, other); ok2 {
				c.Before = append(c.Before, [2]string{intr, dataOnNamespace(c.Data, other)})
				c.Profile, c.Data = subj, dataOnNamespace(c.Data, builtinNS[name])
				c.Procs = true
			}
		}
	}
	if rapid.IntRange(0, 3).Draw(t, "abandonedInput") == 0 {
		c.BeforeData = append(c.BeforeData, genAbandonedInput(t, c.Data))
		c.Procs = true
	}
	return c
}

// genAbandonedInput makes a long text of which a JSON reader consumes only a part: a document with a syntax error
// near its start, or a readable document followed by kilobytes of something else.
func genAbandonedInput(t *rapid.T, valid string) string {
	tailUnit := pick(t, []string{"{\"@id\":\"http://ex.org/n/tail\",\"@type\":[\"http://ex.org/v#Test\"]}\n", "# log line after the document\n", " ]]]]}}}} ", "0123456789abcdef"}, "tailUnit")
	tail := strings.Repeat(tailUnit, rapid.SampledFrom([]int{40, 400, 4000}).Draw(t, "tailUnits"))
	switch rapid.IntRange(0, 2).Draw(t, "abandonKind") {
	case 0: // syntax error within the first bytes of a long text
		return "[{\"@id\": !oops " + tail
	case 1: // the first value is complete; a lot follows
		return valid + "\n" + tail
	default: // truncated document padded with a long string
		cut := len(valid) / 2
		return valid[:cut] + "\u0000" + tail
	}
}

// TestHelperValidate is the body of the fresh-process runs: it validates the
// case named by C06_HELPER_CASE and writes the report to C06_HELPER_OUT.
func TestHelperValidate(t *testing.T) {
	in, out := os.Getenv("C06_HELPER_CASE"), os.Getenv("C06_HELPER_OUT")
	if in == "" || out == "" {
		t.Skip("helper only")
	}
	b, err := os.ReadFile(in)
	if err != nil {
		t.Fatal(err)
	}
	var c c06Case
	if err := json.Unmarshal(b, &c); err != nil {
		t.Fatal(err)
	}
	r := validateFixed(c.Profile, c.Data)
	if r.failed() {
		_ = os.WriteFile(out, []byte("ERROR: "+r.errString()), 0o644)
		return
	}
	_ = os.WriteFile(out, []byte(r.Report), 0o644)
}

func freshProcessReport(c c06Case, i int) (string, error) {
	dir := scratchDir()
	in := filepath.Join(dir, "c06case.json")
	out := filepath.Join(dir, fmt.Sprintf("c06out%d.json", i))
	b, _ := json.Marshal(c)
	if err := os.WriteFile(in, b, 0o644); err != nil {
		return "", err
	}
	_ = os.Remove(out)
	cmd := exec.Command(os.Args[0], "-test.run", "^TestHelperValidate$", "-test.count=1")
	cmd.Env = append(os.Environ(), "C06_HELPER_CASE="+in, "C06_HELPER_OUT="+out, "VERIF_RUN_DIR=", "VERIF_REPLAY=")
	if o, err := cmd.CombinedOutput(); err != nil {
		return "", fmt.Errorf("helper process failed: %v: %s", err, trunc(string(o), 300))
	}
	rb, err := os.ReadFile(out)
	return string(rb), err
}

func firstDiff(a, b string) string {
	n := len(a)
	if len(b) < n {
		n = len(b)
	}
	i := 0
	for i < n && a[i] == b[i] {
		i++
	}
	lo := i - 200
	if lo < 0 {
		lo = 0
	}
	hiA, hiB := i+200, i+200
	if hiA > len(a) {
		hiA = len(a)
	}
	if hiB > len(b) {
		hiB = len(b)
	}
	return fmt.Sprintf("first difference at byte %d:\n--- A\n%s\n--- B\n%s", i, a[lo:hiA], b[lo:hiB])
}

func decideC06(c c06Case) ev.Verdict {
	const R, G = 6, 8
	for _, b := range c.Before {
		if r := validateFixed(b[0], b[1]); r.failed() {
			return ev.Violation("c06-call-failed:"+classifyErr(r), "validation of the earlier profile failed: %s\n%s", trunc(r.errString(), 400), b[0])
		}
	}
	for _, d := range c.BeforeData {
		if r := validateFixed(c.Profile, d); r.Panic != "" {
			return ev.Violation("c06-panic", "panic on an earlier document: %s", r.Panic)
		}
	}
	first := validateFixed(c.Profile, c.Data)
	if first.failed() {
		return ev.Violation("c06-call-failed:"+classifyErr(first), "validation failed: %s\n%s", trunc(first.errString(), 400), c.Profile)
	}
	// abandoned input, then the subject again, a few times over: what the reader left unread may sit in any buffer.
	// Through a compiled profile the two calls follow each other within microseconds (no compilation in between
	// whose garbage would let the collector empty a pool first).
	var q *rego.PreparedEvalQuery
	if len(c.BeforeData) > 0 {
		var cc call
		if q, cc = compileProfile(c.Profile); cc.failed() {
			q = nil
		}
	}
	for rep := 0; rep < 4 && len(c.BeforeData) > 0; rep++ {
		for _, d := range c.BeforeData {
			_ = validateFixed(c.Profile, d)
		}
		r := validateFixed(c.Profile, c.Data)
		if q != nil && !r.failed() && r.Report == first.Report {
			for _, d := range c.BeforeData {
				_ = validateCompiledFixed(q, d)
			}
			r = validateCompiledFixed(q, c.Data)
		}
		if r.failed() || r.Report != first.Report {
			return ev.Violation("c06-repeated-call-differs", "the same inputs, validated straight after an input the reader abandoned, gave a different report (err=%v)\n%s\nprofile:\n%s", r.errString(), firstDiff(first.Report, r.Report), c.Profile)
		}
	}
	for i := 1; i < R; i++ {
		r := validateFixed(c.Profile, c.Data)
		if r.failed() || r.Report != first.Report {
			return ev.Violation("c06-repeated-call-differs", "call %d of the same inputs gave a different report (err=%v)\n%s\nprofile:\n%s", i, r.errString(), firstDiff(first.Report, r.Report), c.Profile)
		}
	}
	var wg sync.WaitGroup
	outs := make([]call, G)
	start := make(chan struct{})
	for i := 0; i < G; i++ {
		wg.Add(1)
		go func(i int) {
			defer wg.Done()
			<-start
			outs[i] = validateFixed(c.Profile, c.Data)
		}(i)
	}
	close(start)
	wg.Wait()
	for i, r := range outs {
		if r.failed() || r.Report != first.Report {
			return ev.Violation("c06-concurrent-call-differs", "goroutine %d of %d gave a different report (err=%v)\n%s\nprofile:\n%s", i, G, r.errString(), firstDiff(first.Report, r.Report), c.Profile)
		}
	}
	labels := []string{"in-process"}
	if len(c.Before) > 0 {
		labels = append(labels, "after-a-profile-rebinding-the-built-in-prefix")
	}
	if len(c.BeforeData) > 0 {
		labels = append(labels, "after-a-long-input-the-reader-abandoned")
	}
	if c.Procs {
		for i := 0; i < 3; i++ {
			r, err := freshProcessReport(c, i)
			if err != nil {
				return ev.Verdict{Discard: true, Detail: err.Error(), Obs: map[string]int{"helper_failures": 1}}
			}
			if r != first.Report {
				return ev.Violation("c06-fresh-process-differs", "fresh process %d gave a different report\n%s\nprofile:\n%s", i, firstDiff(first.Report, r), c.Profile)
			}
		}
		labels = append(labels, "fresh-processes")
		if os.Getenv("ACV_BIN") != "" {
			dir := scratchDir()
			pf := filepath.Join(dir, "c06profile.yaml")
			_ = os.WriteFile(pf, []byte(c.Profile), 0o644)
			var firstCode string
			for i := 0; i < 3; i++ {
				so, se, exit, err := runACV("generate", pf)
				if err != nil {
					return ev.Verdict{Discard: true, Detail: err.Error(), Obs: map[string]int{"helper_failures": 1}}
				}
				if exit != 0 {
					return ev.Violation("c06-generate-failed", "acv generate failed on a profile the library compiles: exit %d %s", exit, trunc(se, 300))
				}
				if i == 0 {
					firstCode = so
				} else if so != firstCode {
					return ev.Violation("c06-generated-code-differs", "acv generate run %d printed different code for the same profile\n%s\nprofile:\n%s", i, firstDiff(firstCode, so), c.Profile)
				}
			}
			labels = append(labels, "acv-generate")
		}
	}
	rep, err := m.ParseReport(first.Report)
	if err != nil {
		return ev.Violation("c06-bad-report", "%v", err)
	}
	rich := false
	for _, r := range rep.Results {
		if tr, ok := r.Raw["trace"].([]any); ok && len(tr) >= 2 {
			rich = true
		}
		if tr, ok := r.Raw["trace"].([]any); ok {
			for _, x := range tr {
				if tm, ok := x.(map[string]any); ok {
					if tv, ok := tm["traceValue"].(map[string]any); ok {
						if sr, ok := tv["subResult"].([]any); ok && len(sr) > 0 {
							rich = true
						}
					}
				}
			}
		}
	}
	if rich {
		labels = append(labels, "report-with-several-traces-or-subresults")
	}
	if msg := canaryChanged(); msg != "" {
		return ev.Violation("c06-canary-changed", "after this case: %s", msg)
	}
	return ev.Verdict{OK: true, NonTrivial: rich, Labels: labels}
}

func TestC06(t *testing.T) {
	ev.Run(t, "C06", genC06, decideC06)
}
