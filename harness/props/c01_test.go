package props

import (
	"fmt"
	"os"
	"sort"
	"strings"
	"sync"
	"testing"

	"pgregory.net/rapid"
	"verifharness/ev"
	m "verifharness/model"
)

type c01Case struct {
	Mode        string      `json:"mode"` // "propositional" or "quantified"
	Profile     m.Profile   `json:"profile"`
	Pairs       [][2]string `json:"pairs"` // (validation, its rewritten twin)
	Graph       *m.Graph    `json:"graph"`
	ProfileText string      `json:"profile_text"`
	DataText    string      `json:"data_text"`
	// Busy: other goroutines compile an unrelated profile while this case is validated. What a validation reports
	// must not depend on what else the process is doing (the schedule is not owned by the harness: a busy case is
	// judged exactly like a quiet one, it merely gives interference a chance to show)
	Busy bool `json:"busy,omitempty"`
	// Route: which entry point produces the report (see validateVia)
	Route int `json:"route,omitempty"`
}

const busyProfile = "profile: busy\nprefixes:\n  ex: \"http://ex.org/v#\"\nviolation:\n- b\nvalidations:\n  b:\n    targetClass: ex.Busy\n    propertyConstraints:\n      ex.e0 / ex.p0:\n        minCount: 1\n      ex.e1:\n        nested:\n          propertyConstraints:\n            ex.p1:\n              pattern: x\n"

// whileBusy runs f while n goroutines keep compiling an unrelated profile.
func whileBusy(n int, f func()) {
	stop := make(chan struct{})
	var wg sync.WaitGroup
	for i := 0; i < n; i++ {
		wg.Add(1)
		go func() {
			defer wg.Done()
			for {
				select {
				case <-stop:
					return
				default:
					compileProfile(busyProfile)
				}
			}
		}()
	}
	f()
	close(stop)
	wg.Wait()
}

// rewrite applies random meaning-preserving steps.
func rewrite(t *rapid.T, f *m.F, budget *int) *m.F {
	f = f.Clone()
	var rw func(x *m.F) *m.F
	rw = func(x *m.F) *m.F {
		for i, s := range x.Sub {
			x.Sub[i] = rw(s)
		}
		for i := range x.PC {
			for j := range x.PC[i].Cs {
				if x.PC[i].Cs[j].Body != nil {
					x.PC[i].Cs[j].Body = rw(x.PC[i].Cs[j].Body)
				}
			}
		}
		if *budget <= 0 || rapid.IntRange(0, 2).Draw(t, "rwHere") != 0 {
			return x
		}
		*budget--
		switch x.Op {
		case "and", "or":
			switch rapid.IntRange(0, 4).Draw(t, "rwAndOr") {
			case 0: // permute
				x.Sub = rapid.Permutation(x.Sub).Draw(t, "perm")
				return x
			case 1: // De Morgan
				other := "or"
				if x.Op == "or" {
					other = "and"
				}
				neg := make([]*m.F, len(x.Sub))
				for i, s := range x.Sub {
					neg[i] = m.Not(s)
				}
				return m.Not(&m.F{Op: other, Sub: neg})
			case 2: // double negation
				return m.Not(m.Not(x))
			case 4: // regroup by associativity: op(a,b,c,d) -> op(op(a,b), op(c,d))
				if len(x.Sub) >= 3 {
					k := rapid.IntRange(1, len(x.Sub)-1).Draw(t, "split")
					left, right := &m.F{Op: x.Op, Sub: append([]*m.F{}, x.Sub[:k]...)}, &m.F{Op: x.Op, Sub: append([]*m.F{}, x.Sub[k:]...)}
					return &m.F{Op: x.Op, Sub: []*m.F{left, right}}
				}
				return x
			default: // flatten same-op children
				var flat []*m.F
				for _, s := range x.Sub {
					if s.Op == x.Op {
						flat = append(flat, s.Sub...)
					} else {
						flat = append(flat, s)
					}
				}
				x.Sub = flat
				return x
			}
		case "not":
			if rapid.Bool().Draw(t, "rwNot") {
				return m.Not(m.Not(x))
			}
			return m.And(x)
		case "if":
			c, th := x.Sub[0], x.Sub[1]
			if len(x.Sub) == 3 {
				return m.And(m.Or(m.Not(c), th), m.Or(c.Clone(), x.Sub[2]))
			}
			return m.Or(m.Not(c), th)
		case "pc":
			n, extras := 0, 0
			for _, e := range x.PC {
				n += len(e.Cs)
				extras += len(e.Extra)
			}
			if n >= 2 && rapid.Bool().Draw(t, "rwSplit") {
				var parts []*m.F
				for _, e := range x.PC {
					for _, c := range e.Cs {
						parts = append(parts, &m.F{Op: "pc", PC: []m.PCEntry{{Prop: e.Prop, Cs: []m.C{c}}}})
					}
					if len(e.Extra) > 0 {
						parts = append(parts, &m.F{Op: "pc", PC: []m.PCEntry{{Prop: e.Prop, Key: e.Key, Extra: e.Extra}}})
					}
				}
				return m.And(parts...)
			}
			if n == 1 && extras == 0 && len(x.PC) == 1 {
				e := x.PC[0]
				c := e.Cs[0]
				switch c.Kind {
				case "atMost":
					return m.Not(m.Quant("atLeast", e.Prop, c.N+1, c.Body))
				case "atLeast":
					if c.N >= 1 {
						return m.Not(m.Quant("atMost", e.Prop, c.N-1, c.Body))
					}
				case "nested":
					return m.Quant("atMost", e.Prop, 0, m.Not(c.Body))
				}
			}
			return rapid.SampledFrom([]*m.F{m.And(x), m.Or(x), m.Not(m.Not(x))}).Draw(t, "wrap")
		}
		return x
	}
	return rw(f)
}

func genC01(t *rapid.T) c01Case {
	thorough := ev.Thorough()
	mode := rapid.SampledFrom([]string{"propositional", "quantified", "quantified", "wide"}).Draw(t, "mode")
	if mode == "wide" {
		return genC01Wide(t)
	}
	g := &fgen{t: t, maxAtoms: 4, maxDepth: 4, maxWidth: 3, quant: mode == "quantified", edges: 2, budget: 9, companions: true, viaPaths: true, constants: true}
	if thorough {
		g.maxDepth, g.maxWidth, g.maxAtoms, g.budget = 6, 4, 5, 14
	}
	if mode == "quantified" {
		g.maxAtoms++
	}
	nv := rapid.IntRange(1, 2).Draw(t, "validations")
	c := c01Case{Mode: mode}
	c.Profile.Name = "c01"
	levels := []string{"violation", "warning", "info"}
	for i := 0; i < nv; i++ {
		if i > 0 {
			g.budget = 6
		}
		limit := 40
		if thorough {
			limit = 80
		}
		f := g.bounded(limit)
		if mode == "quantified" && rapid.IntRange(0, 4).Draw(t, "quantifiedCondition") == 0 {
			// a conditional whose condition is a quantified block (the condition is used in both polarities, the
			// block's count test is what a negation flips)
			cond := m.Quant(pick(t, []string{"atMost", "atMost", "atLeast", "nested"}, "condKind"), fmt.Sprintf("e%d", rapid.IntRange(0, g.edges-1).Draw(t, "condEdge")), rapid.IntRange(0, 2).Draw(t, "condN"), m.AtomF(g.atom()))
			th, el := m.AtomF(g.atom()), m.AtomF(g.atom())
			switch rapid.IntRange(0, 2).Draw(t, "condShape") {
			case 0:
				f = m.IfElse(cond, th, el)
			case 1:
				f = m.Not(m.IfElse(cond, th, el))
			default:
				f = m.If(cond, th)
			}
		}
		name := fmt.Sprintf("v%d", i)
		class := "ex.Test"
		if mode == "quantified" {
			class = pick(t, []string{"ex.Test", "ex.Test", "ex.Other", "ex.Nothing"}, "class")
		}
		c.Profile.Validations = append(c.Profile.Validations, m.Validation{Name: name, Level: pick(t, levels, "level"), Class: class, Body: f})
		if rapid.IntRange(0, 2).Draw(t, "withTwin") != 0 {
			budget := rapid.IntRange(1, 4).Draw(t, "rwBudget")
			f2 := rewrite(t, f, &budget)
			if f2.Cost() > 2*limit {
				f2 = m.Not(m.Not(f))
			}
			c.Profile.Validations = append(c.Profile.Validations, m.Validation{Name: name + "rw", Level: pick(t, levels, "level"), Class: class, Body: f2})
			c.Pairs = append(c.Pairs, [2]string{name, name + "rw"})
		}
	}
	for _, v := range c.Profile.Validations {
		v.Body.MarkPolarity(m.Pos)
	}
	var edges []string
	eset := map[string]bool{}
	for _, v := range c.Profile.Validations {
		for _, e := range v.Body.Edges() {
			if !eset[e] {
				eset[e] = true
				edges = append(edges, e)
			}
		}
	}
	sort.Strings(edges)
	if mode == "propositional" {
		c.Graph = propositionalGraph(t, g.atoms)
	} else {
		c.Graph = randomGraph(t, g.atoms, edges, 6)
	}
	c.ProfileText = c.Profile.ToY().Print(m.YOpts{})
	c.DataText = c.Graph.JSONLD(m.LDOpts{})
	c.Busy = rapid.IntRange(0, 7).Draw(t, "busy") == 0
	c.Route = rapid.SampledFrom([]int{0, 0, 1, 2, 3}).Draw(t, "route")
	return c
}

// genC01Wide: a wide or/and of conjunctions/disjunctions of several atoms (the shape where the translator builds a
// cross product of failure branches), decided on every truth assignment, with a regrouped twin.
func genC01Wide(t *rapid.T) c01Case {
	g := &fgen{t: t, maxAtoms: 6, maxDepth: 1, maxWidth: 2, budget: 100, viaPaths: true}
	if ev.Thorough() {
		g.maxAtoms = 7
	}
	f := wideFormula(t, g)
	c := c01Case{Mode: "wide"}
	c.Profile.Name = "c01w"
	budget := rapid.IntRange(1, 3).Draw(t, "rwBudget")
	f2 := rewrite(t, f, &budget)
	c.Profile.Validations = []m.Validation{
		{Name: "v0", Level: "violation", Class: "ex.Test", Body: f},
		{Name: "v0rw", Level: "warning", Class: "ex.Test", Body: f2},
	}
	c.Pairs = [][2]string{{"v0", "v0rw"}}
	for _, v := range c.Profile.Validations {
		v.Body.MarkPolarity(m.Pos)
	}
	c.Graph = propositionalGraph(t, g.atoms)
	c.ProfileText = c.Profile.ToY().Print(m.YOpts{})
	c.DataText = c.Graph.JSONLD(m.LDOpts{})
	c.Busy = rapid.IntRange(0, 7).Draw(t, "busy") == 0
	c.Route = rapid.SampledFrom([]int{0, 0, 1, 2, 3}).Draw(t, "route")
	return c
}

// wideFormula: an or (and) of 2-5 operands, each a conjunction (disjunction) of 1-3 atoms, the cross product of the
// group sizes bounded by 24; some conjunctions are written as one propertyConstraints map.
func wideFormula(t *rapid.T, g *fgen) *m.F { return wideFormulaMin(t, g, 2) }

// wideFormulaMin: at least kmin operands; with kmin >= 4 the groups lean towards two members (four two-member
// groups is where the cross product first outgrows its initial capacity)
func wideFormulaMin(t *rapid.T, g *fgen, kmin int) *m.F {
	outer := rapid.SampledFrom([]string{"or", "or", "and"}).Draw(t, "outer")
	inner := "and"
	if outer == "and" {
		inner = "or"
	}
	k := rapid.IntRange(kmin, 5).Draw(t, "operands")
	var subs []*m.F
	product := 1
	for i := 0; i < k; i++ {
		n := rapid.IntRange(1, 3).Draw(t, "groupSize")
		if kmin >= 4 && n == 1 && rapid.Bool().Draw(t, "pair") {
			n = 2
		}
		if product*n > 24 { // the translator emits one rule per element of the cross product
			n = 1
		}
		product *= n
		var parts []*m.F
		for j := 0; j < n; j++ {
			a := m.AtomF(g.atom())
			if rapid.IntRange(0, 4).Draw(t, "negAtom") == 0 {
				a = m.Not(a)
			}
			if rapid.IntRange(0, 9).Draw(t, "constantPart") == 0 {
				a = g.trueLeaf() // an operand that cannot fail
			}
			parts = append(parts, a)
		}
		switch {
		case n == 1:
			subs = append(subs, parts[0])
		case inner == "and" && rapid.Bool().Draw(t, "asMap"):
			// one propertyConstraints map with several keys = implicit and
			pc := &m.F{Op: "pc"}
			ok := true
			seen := map[string]bool{}
			for _, p := range parts {
				if p.Op != "pc" || seen[p.PC[0].Prop] {
					ok = false
					break
				}
				seen[p.PC[0].Prop] = true
				pc.PC = append(pc.PC, p.PC...)
			}
			if ok {
				subs = append(subs, pc)
			} else {
				subs = append(subs, &m.F{Op: inner, Sub: parts})
			}
		default:
			subs = append(subs, &m.F{Op: inner, Sub: parts})
		}
	}
	f := &m.F{Op: outer, Sub: subs}
	if rapid.IntRange(0, 3).Draw(t, "negWhole") == 0 {
		f = m.Not(f)
	}
	return f
}

func expectedFailing(f *m.F, g *m.Graph, class string) (ids []string, ok bool) {
	ok = true
	for i, n := range g.Nodes {
		if !n.HasType(class) {
			continue
		}
		tv, eok := m.Eval(f, g, i)
		if !eok {
			ok = false
		}
		if !tv {
			ids = append(ids, n.ID)
		}
	}
	sort.Strings(ids)
	return
}

func decideC01(c c01Case) ev.Verdict {
	if err := m.YAMLMatches(c.ProfileText, c.Profile.ToY()); err != nil {
		return ev.Verdict{Discard: true, Detail: err.Error()}
	}
	var res call
	if c.Busy {
		reps := 1
		if os.Getenv("VERIF_REPLAY") != "" {
			reps = 30
		}
		whileBusy(3, func() {
			for i := 0; i < reps; i++ {
				res = validateVia(c.Route, c.ProfileText, c.DataText)
				if i+1 < reps {
					if v := judgeC01(c, res); !v.OK {
						break
					}
				}
			}
		})
	} else {
		res = validateVia(c.Route, c.ProfileText, c.DataText)
	}
	return judgeC01(c, res)
}

func judgeC01(c c01Case, res call) ev.Verdict {
	if res.failed() {
		return ev.Violation("c01-call-failed:"+classifyErr(res), "validation call failed: %s\nprofile:\n%s", trunc(res.errString(), 600), c.ProfileText)
	}
	rep, err := m.ParseReport(res.Report)
	if err != nil {
		return ev.Violation("c01-bad-report", "%v", err)
	}
	v := ev.Verdict{OK: true}
	anyMixed := false
	connectives := 0
	for _, val := range c.Profile.Validations {
		want, ok := expectedFailing(val.Body, c.Graph, m.NS+strings.TrimPrefix(val.Class, "ex."))
		if !ok {
			return ev.Verdict{Discard: true, Detail: "values outside the witness table"}
		}
		got := rep.FocusSet(val.Name)
		st := val.Body.Stats()
		connectives += st.Connectives + st.Quantifiers
		targets := 0
		for _, n := range c.Graph.Nodes {
			if n.HasType(m.NS + strings.TrimPrefix(val.Class, "ex.")) {
				targets++
			}
		}
		v.Labels = append(v.Labels, "target:"+val.Class)
		if len(want) > 0 && len(want) < targets {
			anyMixed = true
		}
		if !m.EqualStrings(want, got) {
			return ev.Violation("c01-verdict-mismatch", "validation %s: formula %s\nexpected reported nodes %v\nobserved %v\nprofile:\n%s\ngraph:\n%s", val.Name, val.Body, short(want), short(got), c.ProfileText, c.Graph)
		}
		lvl := strings.Title(val.Level)
		for _, r := range rep.Results {
			if r.Shape == val.Name && r.Severity != lvl {
				return ev.Violation("c01-severity", "validation %s listed under %s reported with severity %s", val.Name, val.Level, r.Severity)
			}
		}
		v.Labels = append(v.Labels, formulaLabels(st)...)
		for _, a := range val.Body.Atoms() {
			v.Labels = append(v.Labels, "atom:"+a.R().Kind)
		}
	}
	for _, p := range c.Pairs {
		a, b := rep.FocusSet(p[0]), rep.FocusSet(p[1])
		if !m.EqualStrings(a, b) {
			return ev.Violation("c01-rewrite-mismatch", "%s and its rewriting %s report different nodes: %v vs %v\nprofile:\n%s", p[0], p[1], short(a), short(b), c.ProfileText)
		}
	}
	if len(c.Pairs) > 0 {
		v.Labels = append(v.Labels, "has-rewritten-twin")
	}
	v.Labels = append(v.Labels, "mode:"+c.Mode, "route:"+routeNames[c.Route%4])
	if c.Busy {
		v.Labels = append(v.Labels, "validated-while-other-goroutines-compile")
	}
	v.Labels = append(v.Labels, graphShape(c.Graph, []string{"e0", "e1"})...)
	v.NonTrivial = connectives > 0 && anyMixed
	return v
}

func formulaLabels(st m.FStats) []string {
	var l []string
	if st.NotOverIte {
		l = append(l, "not-over-ite")
	}
	if st.OrOverConj {
		l = append(l, "or-over->=2-conjunctions")
	}
	if st.NestedUnderNot {
		l = append(l, "quantifier-under-negation")
	}
	if st.CountGt1UnderNeg {
		l = append(l, "count>1-under-negation")
	}
	if st.Wide {
		l = append(l, ">=3-operands")
	}
	l = append(l, fmt.Sprintf("depth:%d", st.Depth))
	if st.Quantifiers > 0 {
		l = append(l, "has-quantifier")
	}
	return l
}

func short(ids []string) []string {
	out := make([]string, len(ids))
	for i, s := range ids {
		out[i] = strings.TrimPrefix(s, m.NodeNS)
	}
	return out
}

// classifyErr reduces an error to a coarse class usable in a signature.
func classifyErr(c call) string {
	if c.Panic != "" {
		return "panic@" + panicSite(c.Stack)
	}
	s := c.errString()
	for _, k := range []string{"rego_parse_error", "rego_type_error", "rego_unsafe_var_error", "rego_compile_error", "rego_recursion_error", "eval_conflict_error", "eval_builtin_error", "unmarshal", "not in compact form", "not present in context"} {
		if strings.Contains(s, k) {
			return k
		}
	}
	return "other-error"
}

func TestC01(t *testing.T) {
	ev.Run(t, "C01", genC01, decideC01)
}
