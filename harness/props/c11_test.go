package props

import (
	"fmt"
	"os"
	"strconv"
	"strings"
	"testing"
	"time"

	"github.com/aml-org/amf-custom-validator/pkg"
	"github.com/aml-org/amf-custom-validator/pkg/config"
	e "github.com/aml-org/amf-custom-validator/pkg/events"
	"github.com/aml-org/amf-custom-validator/pkg/milestones"
	"github.com/open-policy-agent/opa/rego"
	"pgregory.net/rapid"
	"verifharness/ev"
	m "verifharness/model"
)

var (
	c11Entries = []string{"Validate", "ValidateWithConfiguration", "CompileProfile", "Compile>ValidateCompiled", "Compile>ValidateCompiledWithConfiguration", "ValidateCompiled(handle compiled without channel)"}
	c11Faults  = []string{"none", "profile-not-yaml", "profile-not-mapping", "no-profile-key", "no-validations", "no-targetClass", "unparsable-path", "unknown-prefix",
		"rego-does-not-compile", "denied-builtin", "data-not-json", "data-jsonld-rejects", "data-no-nodes", "evaluation-error", "report-building-failure", "nil-validation-configuration"}
	c11Caps = []int{64, 1, 0}
)

// faultStage gives the Start event of the stage a fault belongs to (-1: no fault).
var faultStage = map[string]e.EventType{
	"none": -1, "data-no-nodes": -1,
	"profile-not-yaml": e.ProfileParsingStart, "profile-not-mapping": e.ProfileParsingStart, "no-profile-key": e.ProfileParsingStart,
	"no-validations": e.ProfileParsingStart, "no-targetClass": e.ProfileParsingStart, "unparsable-path": e.ProfileParsingStart,
	"unknown-prefix":        e.RegoGenerationStart,
	"rego-does-not-compile": e.RegoCompilationStart, "denied-builtin": e.RegoCompilationStart,
	"data-not-json":           e.InputDataParsingStart,
	"data-jsonld-rejects":     e.InputDataNormalizationStart,
	"evaluation-error":        e.OpaValidationStart,
	"report-building-failure": e.BuildReportStart,
	// the *WithConfiguration entry points handed a nil ValidationConfiguration while the report configuration asks
	// for the creation time: a caller's mistake, answered with an error - and with the channel closed
	"nil-validation-configuration": e.BuildReportStart,
}

var (
	compilePart  = []e.EventType{e.ProfileParsingStart, e.ProfileParsingDone, e.RegoGenerationStart, e.RegoGenerationDone, e.RegoCompilationStart, e.RegoCompilationDone}
	validatePart = []e.EventType{e.InputDataParsingStart, e.InputDataParsingDone, e.InputDataNormalizationStart, e.InputDataNormalizationDone, e.OpaValidationStart, e.OpaValidationDone, e.BuildReportStart, e.BuildReportDone}
)

func isProfileFault(f string) bool {
	st, ok := faultStage[f]
	return ok && (st == e.ProfileParsingStart || st == e.RegoGenerationStart || st == e.RegoCompilationStart)
}

type c11Case struct {
	Entry   string `json:"entry"`
	Fault   string `json:"fault"`
	Cap     int    `json:"cap"`
	Profile string `json:"profile"`
	Data    string `json:"data"`
	Debug   bool   `json:"debug,omitempty"`   // the debug flag of the entry points: it must not change the protocol
	Earlier int    `json:"earlier,omitempty"` // validating calls made before the judged one through the same channel variable (a fresh channel each)
}

func injectProfileFault(t *rapid.T, p *m.Profile, fault string) string {
	y := p.ToY()
	vs := y.Get("validations")
	firstListed := ""
	for _, v := range p.Validations {
		if v.Level != "" {
			firstListed = v.Name
			break
		}
	}
	target := vs.Get(firstListed)
	switch fault {
	case "profile-not-yaml":
		return pick(t, []string{"profile: [unclosed\nvalidations: {}\n", "a: b: c\n", "{", "profile: x\n\tvalidations: {}\n", "profile: \"unterminated\nvalidations: {}\n"}, "badyaml")
	case "profile-not-mapping":
		return pick(t, []string{"- a\n- b\n", "just a string\n", "5\n", "[profile, x]\n"}, "notmap")
	case "no-profile-key":
		ny := m.YMap()
		for i, k := range y.Keys {
			if k != "profile" {
				ny.Set(k, y.Vals[i])
			}
		}
		y = ny
	case "no-validations":
		ny := m.YMap()
		for i, k := range y.Keys {
			if k != "validations" {
				ny.Set(k, y.Vals[i])
			}
		}
		if rapid.Bool().Draw(t, "validationsScalar") {
			ny.Set("validations", m.YStr("none"))
		}
		y = ny
	case "no-targetClass":
		nt := m.YMap()
		for i, k := range target.Keys {
			if k != "targetClass" {
				nt.Set(k, target.Vals[i])
			}
		}
		vs.Set(firstListed, nt)
	case "unparsable-path":
		bad := m.YMap()
		bad.Set("targetClass", m.YStr("ex.Test"))
		pc := m.YMap()
		pc.Set(pick(t, []string{"((", "ex.a / / ex.b", "ex.a )", "| ex.a", "ex.a^^"}, "badpath"), m.YMap().Set("minCount", m.YInt(1)))
		bad.Set("propertyConstraints", pc)
		vs.Set(firstListed, bad)
	case "unknown-prefix":
		if rapid.Bool().Draw(t, "prefixInClass") {
			target.Set("targetClass", m.YStr("zz.Test"))
		} else {
			bad := m.YMap()
			bad.Set("targetClass", m.YStr("ex.Test"))
			bad.Set("propertyConstraints", m.YMap().Set("zz.p", m.YMap().Set("minCount", m.YInt(1))))
			vs.Set(firstListed, bad)
		}
	case "rego-does-not-compile":
		bad := m.YMap()
		bad.Set("targetClass", m.YStr("ex.Test"))
		bad.Set("rego", m.YStr(pick(t, []string{"this is not rego (((", "$result = undefined_function($node)", "$result = 1 +", "x := 1\nx := 2\n$result = true"}, "badrego")))
		vs.Set(firstListed, bad)
	case "denied-builtin":
		bad := m.YMap()
		bad.Set("targetClass", m.YStr("ex.Test"))
		bad.Set("rego", m.YStr(pick(t, []string{"r := http.send({\"method\": \"get\", \"url\": \"http://localhost/\"})\n$result = r.status_code == 200", "rt := opa.runtime()\n$result = is_object(rt)", "walk($node, [p, v])\n$result = true", "addrs := net.lookup_ip_addr(\"localhost\")\n$result = count(addrs) > 0"}, "denied")))
		vs.Set(firstListed, bad)
	case "evaluation-error":
		y.Set("rego_extensions", m.YStr("report[\"profile\"] = \"another name\"\n"))
	case "report-building-failure":
		// only sound when no warning-level validation exists (a partial set and a complete rule would not compile)
		y.Set("rego_extensions", m.YStr(pick(t, []string{"warning = 5\n", "warning = \"x\"\n", "warning = {\"a\": 1}\n"}, "badlevel")))
	}
	return y.Print(m.YOpts{})
}

func genC11(entry, fault string, capacity int) func(*rapid.T) c11Case {
	return func(t *rapid.T) c11Case {
		g := &fgen{t: t, maxAtoms: 3, maxDepth: 2, maxWidth: 2, budget: 4, quant: rapid.Bool().Draw(t, "quant"), edges: 1}
		p := m.Profile{Name: "c11"}
		levels := []string{"violation", "info"}
		if fault != "report-building-failure" {
			levels = append(levels, "warning")
		}
		nv := rapid.IntRange(1, 2).Draw(t, "nv")
		for i := 0; i < nv; i++ {
			g.budget = 4
			p.Validations = append(p.Validations, m.Validation{Name: fmt.Sprintf("v%d", i), Level: pick(t, levels, "level"), Class: "ex.Test", Body: g.bounded(40)})
		}
		for _, v := range p.Validations {
			v.Body.MarkPolarity(m.Pos)
		}
		gr := randomGraph(t, g.atoms, []string{"e0"}, 3)
		c := c11Case{Entry: entry, Fault: fault, Cap: capacity, Debug: rapid.IntRange(0, 2).Draw(t, "debug") == 0, Earlier: rapid.SampledFrom([]int{0, 0, 1, 2}).Draw(t, "earlier")}
		c.Profile = injectProfileFault(t, &p, fault)
		genScale(t, gr, 12)
		c.Data = gr.JSONLD(genLDOpts(t, len(gr.Nodes)))
		switch fault {
		case "data-not-json":
			c.Data = pick(t, []string{"", "{", c.Data[:len(c.Data)/2], "profile: x", "\xff\xfe"}, "badjson")
		case "data-jsonld-rejects":
			c.Data = pick(t, []string{`[{"@id":5}]`, `{"@context":{"@vocab":5}}`, `[{"@id":"http://a/b","@type":5}]`, `{"@context":7,"@id":"http://a/b"}`}, "badld")
		case "data-no-nodes":
			c.Data = pick(t, []string{"[]", "{}", `{"@graph":[]}`, `{"@id":"http://a/b"}`}, "nonodes")
		}
		// scale: inputs beyond the sizes at which a "large input" path could start (white space before the data,
		// comment lines after the profile); the protocol does not depend on size
		if rapid.IntRange(0, 7).Draw(t, "bigData") == 0 {
			c.Data = strings.Repeat(" ", rapid.SampledFrom([]int{70_000, 600_000, 1_200_000}).Draw(t, "dataPad")) + "\n" + c.Data
		}
		if rapid.IntRange(0, 11).Draw(t, "bigProfile") == 0 {
			c.Profile += "\n" + strings.Repeat("# padding padding padding padding padding padding padding padding\n", rapid.SampledFrom([]int{1_100, 9_500, 19_000}).Draw(t, "profilePad"))
		}
		return c
	}
}

// clock is the ValidationConfiguration handed to the *WithConfiguration entry points (nil for the fault of that name)
func (c c11Case) clock() config.ValidationConfiguration {
	if c.Fault == "nil-validation-configuration" {
		return nil
	}
	return clock0
}

type c11Obs struct {
	events           []e.Event
	closedAt         string // "", or description of when closure was observed
	callPanic        string
	callErr          error
	report           string
	openAfterCompile *bool
	closedByLibrary  bool
	extra            string
}

// consumer drains ch until it is closed.
func startConsumer(ch chan e.Event) (events *[]e.Event, done chan struct{}) {
	var evs []e.Event
	done = make(chan struct{})
	go func() {
		for x := range ch {
			evs = append(evs, x)
		}
		close(done)
	}()
	return &evs, done
}

const markerType = e.EventType(-99)

// closeProbe closes ch and reports whether it was already closed (the close panicked).
func closeProbe(ch chan e.Event) (alreadyClosed bool) {
	defer func() {
		if recover() != nil {
			alreadyClosed = true
		}
	}()
	close(ch)
	return false
}

// sendProbe sends a marker and reports whether the channel was closed (the send panicked).
func sendProbe(ch chan e.Event) (closed bool) {
	defer func() {
		if recover() != nil {
			closed = true
		}
	}()
	ch <- e.Event{EventType: markerType, Time: time.Now()}
	return false
}

func decideC11(c c11Case) ev.Verdict {
	applicable := true
	switch c.Entry {
	case "CompileProfile":
		if !isProfileFault(c.Fault) && c.Fault != "none" {
			applicable = false
		}
	case "ValidateCompiled(handle compiled without channel)":
		if isProfileFault(c.Fault) {
			applicable = false
		}
	}
	if c.Fault == "nil-validation-configuration" && !strings.HasSuffix(c.Entry, "WithConfiguration") {
		applicable = false
	}
	if !applicable {
		return ev.Verdict{Discard: true, Detail: "fault not applicable to entry point"}
	}
	// a caller may keep one channel variable for all its calls and put a fresh channel into it each time: the
	// protocol is per call, whatever was passed before through the same variable
	var ch chan e.Event
	for i := 0; i < c.Earlier; i++ {
		ch = make(chan e.Event, 64)
		_ = guard(func() (string, error) { return pkg.Validate(c.Profile, c.Data, c.Debug, &ch) })
	drain:
		for {
			select {
			case _, ok := <-ch:
				if !ok {
					break drain
				}
			default:
				break drain
			}
		}
	}
	ch = make(chan e.Event, c.Cap)
	evsPtr, done := startConsumer(ch)
	var expected []e.EventType
	var res call
	expectOpen := false
	var openObserved, closedByLib bool
	cfgCall := func(q *rego.PreparedEvalQuery, withCfg bool) call {
		return guard(func() (string, error) {
			if withCfg {
				return pkg.ValidateCompiledWithConfiguration(q, c.Data, c.Debug, &ch, c.clock(), config.DefaultReportConfiguration())
			}
			return pkg.ValidateCompiled(q, c.Data, c.Debug, &ch)
		})
	}
	switch c.Entry {
	case "Validate":
		expected = append(append([]e.EventType{}, compilePart...), validatePart...)
		res = guard(func() (string, error) { return pkg.Validate(c.Profile, c.Data, c.Debug, &ch) })
	case "ValidateWithConfiguration":
		expected = append(append([]e.EventType{}, compilePart...), validatePart...)
		res = guard(func() (string, error) {
			return pkg.ValidateWithConfiguration(c.Profile, c.Data, c.Debug, &ch, c.clock(), config.DefaultReportConfiguration())
		})
	case "CompileProfile":
		expected = compilePart
		var q *rego.PreparedEvalQuery
		res = guard(func() (string, error) {
			var err error
			q, err = pkg.CompileProfile(c.Profile, c.Debug, &ch)
			return "", err
		})
		if res.Err == nil && res.Panic == "" {
			expectOpen = true
			if q == nil {
				return ev.Violation("c11-nil-handle", "CompileProfile returned nil handle and nil error")
			}
		}
	case "Compile>ValidateCompiled", "Compile>ValidateCompiledWithConfiguration":
		expected = append(append([]e.EventType{}, compilePart...), validatePart...)
		var q *rego.PreparedEvalQuery
		res = guard(func() (string, error) {
			var err error
			q, err = pkg.CompileProfile(c.Profile, c.Debug, &ch)
			return "", err
		})
		if res.Err == nil && res.Panic == "" {
			// the channel must still be open between the two calls
			if sendProbe(ch) {
				return ev.Violation("c11-closed-after-successful-compile", "%s: channel was closed by a successful stand-alone CompileProfile", c.Entry)
			}
			res = cfgCall(q, strings.HasSuffix(c.Entry, "WithConfiguration"))
		}
	default:
		expected = validatePart
		q, cc := compileProfile(c.Profile)
		if cc.failed() {
			return ev.Violation("c11-generator-profile-does-not-compile", "profile for fault %s does not compile: %s\n%s", c.Fault, cc.errString(), c.Profile)
		}
		res = cfgCall(q, false)
	}
	// closure: decided by state, not by time
	if expectOpen {
		closed := sendProbe(ch)
		openObserved = !closed
		if !closed {
			close(ch)
		}
	} else {
		closedByLib = closeProbe(ch)
	}
	<-done
	if res.Panic != "" {
		return ev.Violation("c11-panic:"+firstWords(res.Panic, 6), "%s with fault %s (cap %d) panicked: %s\nprofile:\n%s", c.Entry, c.Fault, c.Cap, trunc(res.Panic, 300), c.Profile)
	}
	if expectOpen && !openObserved {
		return ev.Violation("c11-closed-after-successful-compile", "%s: channel closed although the stand-alone compilation succeeded", c.Entry)
	}
	if !expectOpen && !closedByLib {
		return ev.Violation("c11-not-closed", "%s with fault %s (cap %d): the call returned (err=%v) but the channel was left open", c.Entry, c.Fault, c.Cap, res.Err)
	}
	var evs []e.Event
	for _, x := range *evsPtr {
		if x.EventType != markerType {
			evs = append(evs, x)
		}
	}
	types := make([]e.EventType, len(evs))
	for i, x := range evs {
		types[i] = x.EventType
	}
	// prefix of the stage order
	if len(types) > len(expected) {
		return ev.Violation("c11-not-a-prefix", "%s/%s: %d events %v, the pipeline has only %d: %v", c.Entry, c.Fault, len(types), types, len(expected), expected)
	}
	for i, ty := range types {
		if ty != expected[i] {
			return ev.Violation("c11-not-a-prefix", "%s/%s: events %v are not a prefix of the stage order %v (position %d)", c.Entry, c.Fault, types, expected, i)
		}
	}
	st := faultStage[c.Fault]
	obs := map[string]int{}
	failedCall := res.Err != nil
	if st < 0 {
		if failedCall {
			return ev.Violation("c11-unexpected-error", "%s without fault (%s) failed: %v\nprofile:\n%s\ndata:\n%s", c.Entry, c.Fault, res.Err, c.Profile, trunc(c.Data, 600))
		}
		if len(types) != len(expected) {
			return ev.Violation("c11-incomplete-on-success", "%s succeeded but emitted only %v of %v", c.Entry, types, expected)
		}
	} else {
		if !failedCall {
			// whether a fault is reported is the business of C04/C08/C17; here the run only lacks its fault
			return ev.Verdict{Discard: true, Detail: "injected fault was not reported as an error", Obs: map[string]int{"fault_not_reported": 1}}
		}
		reached, beyond := false, false
		pos := -1
		for i, ty := range expected {
			if ty == st {
				pos = i
			}
		}
		for i, ty := range types {
			if ty == st {
				reached = true
			}
			if pos >= 0 && i > pos+1 {
				beyond = true
			}
		}
		// Which stage reports a given fault is not fixed by the property (a refactoring may, say, resolve prefixes
		// while parsing): attribution is recorded as an observation, not judged.
		if !reached {
			obs["fault_reported_before_expected_stage"]++
		}
		if beyond {
			obs["events_after_expected_failing_stage"]++
		}

	}
	for i := 1; i < len(evs); i++ {
		if evs[i].Time.Before(evs[i-1].Time) {
			return ev.Violation("c11-time-goes-back", "event %d at %v precedes event %d at %v", i, evs[i].Time, i-1, evs[i-1].Time)
		}
	}
	// milestones derived from the observed events
	in := make(chan e.Event, len(evs)+1)
	for _, x := range evs {
		in <- x
	}
	close(in)
	out := make(chan milestones.Milestone, len(evs)+1)
	mpanic := ""
	func() {
		defer func() {
			if r := recover(); r != nil {
				mpanic = fmt.Sprint(r)
			}
		}()
		milestones.GenerateMilestonesFromEvents(&in, &out)
	}()
	if mpanic != "" {
		return ev.Violation("c11-milestones-panic", "GenerateMilestonesFromEvents panicked: %s", mpanic)
	}
	var ms []milestones.Milestone
	closed := false
	for !closed {
		select {
		case x, ok := <-out:
			if !ok {
				closed = true
			} else {
				ms = append(ms, x)
			}
		default:
			return ev.Violation("c11-milestone-channel-open", "milestone channel not closed after the event channel was drained")
		}
	}
	names := map[e.EventType]milestones.Operation{
		e.ProfileParsingDone: milestones.ProfileParsing, e.RegoGenerationDone: milestones.RegoGeneration, e.InputDataParsingDone: milestones.InputDataParsing,
		e.InputDataNormalizationDone: milestones.InputDataNormalization, e.OpaValidationDone: milestones.OpaValidation, e.BuildReportDone: milestones.BuildReport,
	}
	var wantMs []milestones.Milestone
	for i, x := range evs {
		if op, ok := names[x.EventType]; ok && i > 0 {
			wantMs = append(wantMs, milestones.Milestone{Operation: op, Start: evs[i-1].Time, Duration: x.Time.Sub(evs[i-1].Time)})
		}
	}
	if len(ms) != len(wantMs) {
		return ev.Violation("c11-milestone-count", "events %v give %d milestones %v, expected %d (one per completed named stage)", types, len(ms), ms, len(wantMs))
	}
	for i := range ms {
		if ms[i].Operation != wantMs[i].Operation || !ms[i].Start.Equal(wantMs[i].Start) || ms[i].Duration != wantMs[i].Duration || ms[i].Duration < 0 {
			return ev.Violation("c11-milestone-mismatch", "milestone %d is %+v, expected %+v", i, ms[i], wantMs[i])
		}
	}
	return ev.Verdict{OK: true, NonTrivial: true, Labels: []string{"entry:" + c.Entry, "fault:" + c.Fault, "cap:" + strconv.Itoa(c.Cap), fmt.Sprintf("events:%d", len(types))},
		Obs: mergeObs(obs, map[string]int{"milestones_checked": len(ms)})}
}

func mergeObs(a, b map[string]int) map[string]int {
	for k, v := range b {
		a[k] += v
	}
	return a
}

func firstWords(s string, n int) string {
	f := strings.Fields(s)
	if len(f) > n {
		f = f[:n]
	}
	return strings.Join(f, "-")
}

func TestC11(t *testing.T) {
	shards, _ := strconv.Atoi(os.Getenv("VERIF_SHARDS"))
	idx, _ := strconv.Atoi(os.Getenv("VERIF_SHARD_INDEX"))
	if shards <= 0 {
		shards = 1
	}
	n := 0
	for _, en := range c11Entries {
		for _, f := range c11Faults {
			for _, cp := range c11Caps {
				n++
				if n%shards != idx {
					continue
				}
				en, f, cp := en, f, cp
				t.Run(fmt.Sprintf("%s|%s|%d", strings.ReplaceAll(en, " ", "_"), f, cp), func(t *testing.T) {
					ev.Run(t, "C11", genC11(en, f, cp), decideC11)
				})
			}
		}
	}
}
