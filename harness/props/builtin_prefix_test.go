package props

import (
	"strings"

	"pgregory.net/rapid"
	m "verifharness/model"
)

// Built-in prefixes: the validator resolves these names without a declaration. A profile may rely on that, and
// another profile may bind the same name to a namespace of its own; what one profile declares must never change
// what another profile means, whatever ran before in the same process or runs at the same time.
var builtinNS = map[string]string{
	"core":        "http://a.ml/vocabularies/core#",
	"apiContract": "http://a.ml/vocabularies/apiContract#",
	"security":    "http://a.ml/vocabularies/security#",
	"shapes":      "http://a.ml/vocabularies/shapes#",
	"doc":         "http://a.ml/vocabularies/document#",
	"api":         "http://anypoint.com/vocabs/api#",
	"shacl":       "http://www.w3.org/ns/shacl#",
}

var builtinNames = []string{"core", "apiContract", "security", "shapes", "doc", "api", "shacl"}

// onBuiltinPrefix rewrites a generated profile (prefix ex bound to m.NS) so that it uses the built-in prefix
// instead. declare "" leaves the prefix undeclared (the built-in binding applies); any other value declares the
// prefix with that namespace (a profile of its own vocabulary that happens to reuse the name).
func onBuiltinPrefix(profileText, prefix, declare string) (string, bool) {
	y, err := m.ParseY(profileText)
	if err != nil {
		return profileText, false
	}
	renamePrefix(y, "ex", prefix, func() bool { return true })
	pf := m.YMap()
	if declare != "" {
		pf.Set(prefix, m.YStr(declare))
	}
	// rebuild the document with the new prefixes block in the place of the old one (dropped when empty)
	out := m.YMap()
	for i, k := range y.Keys {
		if k == "prefixes" {
			if len(pf.Keys) > 0 {
				out.Set(k, pf)
			}
			continue
		}
		out.Set(k, y.Vals[i])
	}
	text := out.Print(m.YOpts{})
	if m.YAMLMatches(text, out) != nil {
		return profileText, false
	}
	return text, true
}

// dataOnNamespace moves the vocabulary of a generated document from m.NS to ns.
func dataOnNamespace(data, ns string) string {
	return strings.ReplaceAll(data, m.NS, ns)
}

func genBuiltinName(t *rapid.T) string {
	return builtinNames[rapid.IntRange(0, len(builtinNames)-1).Draw(t, "builtinPrefix")]
}
