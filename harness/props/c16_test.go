package props

import (
	"fmt"
	"strings"
	"testing"
	"unicode/utf8"

	"pgregory.net/rapid"
	"verifharness/ev"
	m "verifharness/model"
)

// The path alphabet used for sentences and mutations (tokens are atomic).
var pathTokens = []string{"(", ")", "/", "|", "^", ".", "@type", "ex.a", "ex.b", " ", "#", "\v"}

// aliasTokens are code points outside ASCII that a careless classifier takes for a character of the grammar: the
// same low 7 or 8 bits as a significant ASCII character (c+0x80, c+0x100, c+0x2000), its full-width compatibility
// form, Unicode spaces, and letters outside the IRI character class. None of them belongs to the path grammar.
var aliasTokens = func() []string {
	seen := map[rune]bool{}
	var out []string
	add := func(r rune) {
		if r >= 0xa0 && !seen[r] && !(r >= 0xd800 && r <= 0xdfff) {
			seen[r] = true
			out = append(out, string(r))
		}
	}
	for _, c := range " \t\n\r()/|^*.@ae" {
		add(c + 0x80)
		add(c + 0x100)
		add(c + 0x2000)
		if c > 0x20 {
			add(0xff00 + c - 0x20)
		}
	}
	for _, r := range []rune{0xa0, 0x1680, 0x2003, 0x202f, 0x205f, 0x3000, 0x200b, 0xe9, 0xdf, 0x3b1} {
		add(r)
	}
	// code points a decoder uses as sentinels: the replacement character (what a decoding error and the end of
	// input look like to a careless reader), non-characters, the last code point, a private-use character
	for _, r := range []rune{0xfffd, 0xfffe, 0xffff, 0x10ffff, 0xe000, 0x1f600} {
		add(r)
	}
	return out
}()

// invalidUTF8Tokens reach the parser through the hook only (YAML cannot carry them)
var invalidUTF8Tokens = []string{"\xff", "\xc3", "\xe2\x82", "\xc0\x80", "\xed\xa0\x80"}

// compileAliasTokens is the sample of aliasTokens used by the end-to-end units (one compilation per string)
var compileAliasTokens = []string{"\u00a0", "\u2009", "\u00de", "\u205e", "\uff5c", "\uff0f", "\u00a8", "\u3000", "\ufffd", "\uffff"}

func allPathTokens(full bool) []string {
	if full {
		return append(append(append([]string{}, pathTokens...), aliasTokens...), invalidUTF8Tokens...)
	}
	return append(append([]string{}, pathTokens...), compileAliasTokens...)
}

type c16Case struct {
	Text   string `json:"text"`
	Via    string `json:"via"` // "compile" (end to end through CompileProfile) or "hook" (parser only)
	Origin string `json:"origin,omitempty"`
}

// c16Profile uses the string as a propertyConstraints key (or as lessThanProperty argument).
func c16Profile(path string, asArgument bool) string {
	y := m.YMap()
	y.Set("profile", m.YStr("c16"))
	y.Set("prefixes", m.YMap().Set("ex", m.YStr(m.NS)))
	y.Set("violation", m.YSeq(m.YStr("v")))
	v := m.YMap()
	v.Set("targetClass", m.YStr("ex.Test"))
	if asArgument {
		// next to a constraint of its own, so that the validation is not empty should the comparison get lost
		v.Set("propertyConstraints", m.YMap().Set("ex.q", m.YMap().Set("minCount", m.YInt(1)).Set(argKeyword(path), m.YStr(path))))
	} else {
		v.Set("propertyConstraints", m.YMap().Set(path, m.YMap().Set("minCount", m.YInt(1))))
	}
	y.Set("validations", m.YMap().Set("v", v))
	return y.Print(m.YOpts{Quote: 1})
}

// argKeyword picks the comparison keyword the string is the operand of (a function of the string, so that a case
// replays the same way)
func argKeyword(path string) string {
	kws := []string{"lessThanProperty", "lessThanOrEqualsToProperty", "equalsToProperty", "disjointWithProperty"}
	return kws[len(path)%len(kws)]
}

// c16ProfileAfterRepeatedKey puts the string as a key AFTER a key that is written twice (YAML libraries differ in
// what they make of a repeated key; the keys that follow are keys of the map all the same)
func c16ProfileAfterRepeatedKey(path string) string {
	return "profile: c16\nprefixes:\n  ex: \"" + m.NS + "\"\nviolation:\n- v\nvalidations:\n  v:\n    targetClass: ex.Test\n    propertyConstraints:\n" +
		"      ex.dup:\n        minCount: 0\n      ex.dup:\n        minCount: 0\n      " + m.DoubleQuote(path) + ":\n        minCount: 1\n"
}

func decideC16Compile(c c16Case) ev.Verdict {
	verdict, _ := m.RefParsePath(c.Text)
	if verdict == m.Unspecified {
		return ev.Verdict{Discard: true, Detail: "status unspecified by the documented grammar"}
	}
	asArg := c.Via == "compile-argument"
	text := c16Profile(c.Text, asArg)
	if err := yamlKeyRoundTrip(text, c.Text, asArg); err != nil {
		return ev.Verdict{Discard: true, Detail: err.Error()}
	}
	if c.Via == "compile-after-repeated-key" {
		text = c16ProfileAfterRepeatedKey(c.Text)
	}
	_, cc := compileProfile(text)
	accepted := !cc.failed() // a panic counts as rejected here (C17 owns "does not panic")
	labels := []string{"via:" + c.Via}
	if verdict == m.Accept {
		labels = append(labels, "ref:accept")
	} else {
		labels = append(labels, "ref:reject")
	}
	if accepted && verdict == m.Reject {
		return ev.Violation("c16-accepted-not-a-path", "%q is not a sentence of the path grammar but a profile using it compiles (origin: %s)", c.Text, c.Origin)
	}
	if !accepted && verdict == m.Accept {
		return ev.Violation("c16-rejected-valid-path", "%q is a sentence of the path grammar but the profile using it is rejected: %s", c.Text, trunc(cc.errString(), 300))
	}
	return ev.Verdict{OK: true, NonTrivial: verdict == m.Reject || strings.Count(c.Text, "/")+strings.Count(c.Text, "|")+strings.Count(c.Text, "^") >= 2, Labels: labels}
}

func yamlKeyRoundTrip(profile, path string, asArg bool) error {
	// the string must come back verbatim from yaml.v3 at the place it was put
	y := m.YMap()
	if asArg {
		y.Set("ex.q", m.YMap().Set("lessThanProperty", m.YStr(path)))
	} else {
		y.Set(path, m.YMap().Set("minCount", m.YInt(1)))
	}
	return m.YAMLMatches(y.Print(m.YOpts{Quote: 1}), y)
}

// ---------------------------------------------------------------- sentence families

// sentences enumerates every sentence with <= maxLeaves leaves over {ex.a, ex.b, @type},
// ^ on any predicate, every bracketing, in two whitespace variants.
func sentences(maxLeaves int) []string {
	leaves := []string{"ex.a", "ex.b^", "@type"}
	seen := map[string]bool{}
	var out []string
	add := func(s string) {
		if !seen[s] {
			seen[s] = true
			out = append(out, s)
		}
	}
	byLeaves := map[int][]string{1: leaves}
	for n := 2; n <= maxLeaves; n++ {
		var cur []string
		for k := 1; k < n; k++ {
			for _, l := range byLeaves[k] {
				for _, r := range byLeaves[n-k] {
					for _, op := range []string{" / ", " | ", "|"} {
						cur = append(cur, l+op+r)
						if k > 1 {
							cur = append(cur, "("+l+")"+op+r)
						}
						if n-k > 1 {
							cur = append(cur, l+op+"( "+r+")")
						}
					}
				}
			}
		}
		// dedupe per level
		lv := map[string]bool{}
		var uniq []string
		for _, s := range cur {
			if !lv[s] {
				lv[s] = true
				uniq = append(uniq, s)
			}
		}
		byLeaves[n] = uniq
	}
	for n := 1; n <= maxLeaves; n++ {
		for _, s := range byLeaves[n] {
			add(s)
			add("(" + s + ")")
		}
	}
	return out
}

func tokenize(s string) []string {
	var toks []string
	for i := 0; i < len(s); {
		matched := false
		for _, t := range []string{"@type", "ex.a", "ex.b"} {
			if strings.HasPrefix(s[i:], t) {
				toks = append(toks, t)
				i += len(t)
				matched = true
				break
			}
		}
		if !matched {
			_, w := utf8.DecodeRuneInString(s[i:])
			toks = append(toks, s[i:i+w])
			i += w
		}
	}
	return toks
}

// singleEdits returns every single-token deletion, insertion and substitution.
func singleEdits(s string) []string { return singleEditsOver(s, allPathTokens(false)) }

func singleEditsOver(s string, pathTokens []string) []string {
	toks := tokenize(s)
	seen := map[string]bool{}
	var out []string
	add := func(ts []string) {
		x := strings.Join(ts, "")
		if x != s && x != "" && !seen[x] {
			seen[x] = true
			out = append(out, x)
		}
	}
	for i := range toks {
		del := append(append([]string{}, toks[:i]...), toks[i+1:]...)
		add(del)
		for _, t := range pathTokens {
			sub := append([]string{}, toks...)
			sub[i] = t
			add(sub)
		}
	}
	for i := 0; i <= len(toks); i++ {
		for _, t := range pathTokens {
			ins := append(append(append([]string{}, toks[:i]...), t), toks[i:]...)
			add(ins)
		}
	}
	return out
}

func genC16(t *rapid.T) c16Case {
	return genC16Over(t, append(append([]string{}, pathTokens...), aliasTokens...))
}

func genC16Over(t *rapid.T, tokens []string) c16Case {
	// random larger sentence, then 0..3 edits
	pg := &pgen{t: t, leaves: 8}
	p := pg.path(0)
	// restrict to the alphabet of this check
	var rename func(x *m.P)
	rename = func(x *m.P) {
		if x.Kind == "pred" {
			if strings.HasSuffix(x.Name, "0") {
				x.Name = "a"
			} else {
				x.Name = "b"
			}
		}
		for _, s := range x.Sub {
			rename(s)
		}
	}
	rename(p)
	s := p.Print(pathStyle(t))
	origin := s
	k := rapid.IntRange(0, 3).Draw(t, "edits")
	for i := 0; i < k; i++ {
		toks := tokenize(s)
		if len(toks) == 0 {
			break
		}
		pos := rapid.IntRange(0, len(toks)).Draw(t, "pos")
		tok := pick(t, tokens, "tok")
		switch rapid.IntRange(0, 2).Draw(t, "edit") {
		case 0:
			if pos < len(toks) {
				toks = append(toks[:pos:pos], toks[pos+1:]...)
			}
		case 1:
			toks = append(toks[:pos:pos], append([]string{tok}, toks[pos:]...)...)
		default:
			if pos < len(toks) {
				toks[pos] = tok
			}
		}
		s = strings.Join(toks, "")
	}
	via := "compile"
	switch rapid.IntRange(0, 5).Draw(t, "asArg") {
	case 0, 1:
		via = "compile-argument"
	case 2:
		via = "compile-after-repeated-key"
	}
	return c16Case{Text: s, Via: via, Origin: fmt.Sprintf("%q + %d edits", origin, k)}
}

func TestC16Compile(t *testing.T) {
	ev.Run(t, "C16", func(t *rapid.T) c16Case {
		c := genC16(t)
		if c.Text == "" {
			c.Text = "ex.a"
		}
		return c
	}, decideC16Compile)
}

// TestC16CompileFamily runs a shard of the exhaustive small family end to end.
func TestC16CompileFamily(t *testing.T) {
	shards, idx := shardEnv()
	var cases []c16Case
	n := 0
	for _, s := range sentences(2) {
		for _, e := range append([]string{s}, singleEdits(s)...) {
			n++
			if n%shards == idx {
				cases = append(cases, c16Case{Text: e, Via: "compile", Origin: s})
			}
		}
	}
	ev.RunFixed(t, "C16", cases, decideC16Compile)
}
