package props

import (
	"fmt"
	"testing"

	"verifharness/ev"
	m "verifharness/model"
)

type tableCase struct {
	Row int  `json:"row"`
	Via bool `json:"via"` // the constraint is put on the path ex.l0 / ex.p0 and the values on child nodes
}

// witnessSets enumerates value assignments for a row together with the truth
// value the table gives them. single=true marks assignments usable under negation.
type witness struct {
	vals, vals2 []m.Lit
	groups      [][]m.Lit // for uniqueValues: the values of each child
	truth       bool
	single      bool
}

func rowWitnesses(r m.AtomRow) []witness {
	var ws []witness
	switch r.Class {
	case "value":
		for _, l := range r.Sat {
			ws = append(ws, witness{vals: []m.Lit{l}, truth: true, single: true})
		}
		for _, l := range r.Viol {
			ws = append(ws, witness{vals: []m.Lit{l}, truth: false, single: true})
		}
		ws = append(ws, witness{vals: nil, truth: true})
		if len(r.Sat) >= 2 {
			ws = append(ws, witness{vals: r.Sat, truth: true})
		}
		if len(r.Viol) > 0 {
			ws = append(ws, witness{vals: append(append([]m.Lit{}, r.Sat...), r.Viol[0]), truth: false})
		}
	case "count":
		for c := 0; c <= 4; c++ {
			var tv bool
			switch r.Kind {
			case "minCount":
				tv = c >= r.N
			case "maxCount":
				tv = c <= r.N
			default:
				tv = c == r.N
			}
			ws = append(ws, witness{vals: fillers[:c], truth: tv, single: true})
		}
	case "set":
		pool := m.SetPool
		for mask := 1; mask < 1<<len(pool); mask++ {
			var vals []m.Lit
			have := map[string]bool{}
			for i, l := range pool {
				if mask&(1<<i) != 0 {
					vals = append(vals, l)
					have[l.AsString()] = true
				}
			}
			hit := 0
			for _, s := range r.Set {
				if have[s] {
					hit++
				}
			}
			tv := hit > 0
			if r.Kind == "containsAll" {
				tv = hit == len(r.Set)
			}
			ws = append(ws, witness{vals: vals, truth: tv, single: true})
		}
	case "unique":
		x, y := m.S("x"), m.S("y")
		ws = append(ws,
			witness{groups: nil, truth: true, single: true},
			witness{groups: [][]m.Lit{{x}}, truth: true, single: true},
			witness{groups: [][]m.Lit{{x}, {y}}, truth: true, single: true},
			witness{groups: [][]m.Lit{{x}, {x}}, truth: false, single: true},
			witness{groups: [][]m.Lit{{x, y}, {y}}, truth: false, single: true},
			witness{groups: [][]m.Lit{{x}, {y}, {m.I(4)}, {y}}, truth: false, single: true},
			witness{groups: [][]m.Lit{{x, y}, {}}, truth: true, single: true},
		)
	case "cmp":
		for _, x := range m.CmpPool {
			for _, y := range m.CmpPool {
				var tv bool
				switch r.Kind {
				case "lessThanProperty":
					tv = x.I < y.I
				case "lessThanOrEqualsToProperty":
					tv = x.I <= y.I
				case "equalsToProperty":
					tv = x.I == y.I
				default:
					tv = x.I != y.I
				}
				ws = append(ws, witness{vals: []m.Lit{x}, vals2: []m.Lit{y}, truth: tv, single: true})
			}
		}
		if r.Kind == "lessThanProperty" {
			ws = append(ws, witness{vals: []m.Lit{m.I(1), m.I(2)}, vals2: []m.Lit{m.I(3)}, truth: true})
			ws = append(ws, witness{vals: []m.Lit{m.I(1), m.I(3)}, vals2: []m.Lit{m.I(2), m.I(3)}, truth: false})
			ws = append(ws, witness{vals: nil, vals2: []m.Lit{m.I(2)}, truth: true})
		}
	}
	return ws
}

func decideTableRow(c tableCase) ev.Verdict {
	r := m.AtomTable[c.Row]
	a := &m.Atom{ID: 0, Row: c.Row, Prop: "p0"}
	if r.Class == "cmp" {
		a.Prop2 = "q0"
		if c.Via {
			return ev.Verdict{Discard: true, Detail: "comparisons are not put on paths"}
		}
	}
	if c.Via || r.Class == "unique" {
		a.Via = "l0"
	}
	prof := m.Profile{Name: "table", Validations: []m.Validation{
		{Name: "plain", Level: "violation", Class: "ex.Test", Body: m.AtomF(a)},
		{Name: "negated", Level: "warning", Class: "ex.Single", Body: m.Not(m.AtomF(a))},
		{Name: "doubleneg", Level: "info", Class: "ex.Single", Body: m.Not(m.Not(m.AtomF(a)))},
	}}
	g := &m.Graph{}
	ws := rowWitnesses(r)
	for _, w := range ws {
		types := []string{classTest}
		if w.single {
			types = append(types, m.NS+"Single")
		}
		i := g.Add(types...)
		if a.Via != "" {
			groups := w.groups
			if r.Class != "unique" {
				switch {
				case len(w.vals) == 0:
				case len(w.vals) == 1:
					groups = [][]m.Lit{w.vals}
				default: // spread the values over two children
					groups = [][]m.Lit{w.vals[:1], w.vals[1:]}
				}
			}
			for _, grp := range groups {
				ci := g.Add(m.NS + "Aux")
				g.Nodes[i].AddVal(m.NS+"l0", m.NV(ci))
				for _, l := range grp {
					g.Nodes[ci].AddVal(m.NS+"p0", m.LV(l))
				}
			}
			continue
		}
		for _, l := range w.vals {
			g.Nodes[i].AddVal(m.NS+"p0", m.LV(l))
		}
		for _, l := range w.vals2 {
			g.Nodes[i].AddVal(m.NS+"q0", m.LV(l))
		}
	}
	// aux nodes were appended after some witnesses: remember which node belongs to which witness
	var witnessNode []int
	for i, n := range g.Nodes {
		if n.HasType(classTest) {
			witnessNode = append(witnessNode, i)
		}
	}
	text := prof.ToY().Print(m.YOpts{})
	res := validateFixed(text, g.JSONLD(m.LDOpts{}))
	if res.failed() {
		return ev.Violation("c01-atom-table:"+r.Kind, "row %d (%s): call failed: %s\n%s", c.Row, r.Kind, trunc(res.errString(), 500), text)
	}
	rep, err := m.ParseReport(res.Report)
	if err != nil {
		return ev.Violation("c01-bad-report", "%v", err)
	}
	in := func(set []string, id string) bool {
		for _, s := range set {
			if s == id {
				return true
			}
		}
		return false
	}
	plain, neg, dn := rep.FocusSet("plain"), rep.FocusSet("negated"), rep.FocusSet("doubleneg")
	knownHits := 0
	for wi, w := range ws {
		i := witnessNode[wi]
		id := g.Nodes[i].ID
		// cross-check the reference evaluator against the table's own truth value
		tv, ok := m.EvalAtom(a, g, g.Nodes[i])
		if !ok || tv != w.truth {
			return ev.Verdict{Discard: true, Detail: fmt.Sprintf("table/evaluator disagree on row %d witness %d", c.Row, i)}
		}
		if r.Finding != "" && w.truth && in(plain, id) && hasFractional(w.vals) {
			// the recorded defect: a fractional number in the data never equals the same number in a list argument
			knownHits++
			continue
		}
		if in(plain, id) == w.truth {
			return ev.Violation("c01-atom-table:"+r.Kind, "row %d %s %s: values %v/%v should make the constraint %v, validator reported=%v\n%s", c.Row, r.Kind, argString(r), keys(w.vals), keys(w.vals2), w.truth, in(plain, id), text)
		}
		if w.single {
			if in(neg, id) != w.truth {
				return ev.Violation("c01-atom-table-negated:"+r.Kind, "row %d not(%s %s): values %v/%v make the constraint %v, negation reported=%v", c.Row, r.Kind, argString(r), keys(w.vals), keys(w.vals2), w.truth, in(neg, id))
			}
			if in(dn, id) == w.truth {
				return ev.Violation("c01-atom-table-doubleneg:"+r.Kind, "row %d not(not(%s)): values %v reported=%v, truth %v", c.Row, r.Kind, keys(w.vals), in(dn, id), w.truth)
			}
		}
	}
	if knownHits > 0 {
		return ev.Violation(r.Finding, "row %d %s %s: %d satisfying witnesses with a fractional number are reported (as_string renders numbers with format_int, the list argument with six decimals)\n%s", c.Row, r.Kind, argString(r), knownHits, text)
	}
	lab := "table:" + r.Kind
	if a.Via != "" {
		lab += ":via-path"
	}
	return ev.Verdict{OK: true, NonTrivial: true, Labels: []string{lab}, Obs: map[string]int{"table_witnesses": len(ws)}}
}

func hasFractional(ls []m.Lit) bool {
	for _, l := range ls {
		if l.K == "f" && l.F != float64(int64(l.F)) {
			return true
		}
	}
	return false
}

func argString(r m.AtomRow) string {
	if r.Arg == nil {
		return ""
	}
	return fmt.Sprint(r.Arg.ToAny())
}

func keys(ls []m.Lit) []string {
	out := make([]string, len(ls))
	for i, l := range ls {
		out[i] = l.Key()
	}
	return out
}

func TestC01AtomTable(t *testing.T) {
	var cases []tableCase
	for i := range m.AtomTable {
		cases = append(cases, tableCase{Row: i}, tableCase{Row: i, Via: true})
	}
	ev.RunFixed(t, "C01", cases, decideTableRow)
}
