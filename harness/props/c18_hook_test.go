//go:build verif

package props

import (
	"os"
	"path/filepath"
	"strings"
	"testing"

	"github.com/aml-org/amf-custom-validator/pkg/verifhook"
	"pgregory.net/rapid"
	"verifharness/ev"
	m "verifharness/model"
)

type c18HookCase struct {
	Cmd  string `json:"cmd"` // generate | normalize
	Text string `json:"text"`
}

func genC18Hook(t *rapid.T) c18HookCase {
	if rapid.Bool().Draw(t, "isGenerate") {
		var text string
		switch rapid.IntRange(0, 6).Draw(t, "pk") {
		case 6:
			// profiles the translator turns into a policy although the engine will refuse it later (a denied
			// built-in, an undefined function, a type error): `generate` prints the policy all the same
			code := pick(t, []string{"r := http.send({\"method\": \"get\", \"url\": \"http://localhost/\"})\n$result = (r.status_code == 200)", "$result = undefined_function($node)", "walk($node, [p, v])\n$result = true", "$result = (1 + \"a\" > 0)", "rt := opa.runtime()\n$result = is_object(rt)"}, "uncompilableRego")
			text = "profile: generates only\nprefixes:\n  ex: http://ex.org/v#\nviolation:\n- v\nvalidations:\n  v:\n    targetClass: ex.Test\n    rego: |\n      " + strings.ReplaceAll(code, "\n", "\n      ") + "\n"
		case 0:
			text = pick(t, rawProfiles, "raw")
		case 1:
			loadFixtures()
			text = pick(t, fixProfiles, "fixture")
		default:
			text, _, _ = genProfileAndGraphs(t, "c18h", 0)
		}
		return c18HookCase{Cmd: "generate", Text: text}
	}
	var text string
	switch rapid.IntRange(0, 5).Draw(t, "dk") {
	case 0:
		text = pick(t, rawData, "raw")
	case 1:
		text = pick(t, nonJSONTexts, "nonjson")
	default:
		g := smallGraph(t)
		// values whose printed form depends on how the output is encoded
		raw := []m.Lit{m.S("a<b&c>d"), m.S("quote\" and \\ backslash"), m.S("é中😀"), m.S("line1\nline2\ttab"), m.I(9007199254740993), m.I(-1), m.Fl(0.1), m.Fl(1e21), m.S("</script>")}
		for _, n := range g.Nodes {
			for _, l := range subset(t, raw, 0, 3, "raw") {
				n.AddVal(m.NS+"raw", m.LV(l))
			}
		}
		text = g.JSONLD(genLDOpts(t, len(g.Nodes)))
	}
	return c18HookCase{Cmd: "normalize", Text: text}
}

func decideC18Hook(c c18HookCase) ev.Verdict {
	if os.Getenv("ACV_BIN") == "" {
		return ev.Verdict{Discard: true, Obs: map[string]int{"helper_failures": 1}}
	}
	dir := scratchDir()
	f := filepath.Join(dir, "c18hook.in")
	_ = os.WriteFile(f, []byte(c.Text), 0o644)
	var want string
	var werr error
	if c.Cmd == "generate" {
		verifhook.GenReset()
		want, werr = verifhook.GenerateRego(c.Text)
	} else {
		want, werr = verifhook.NormalizeInput(c.Text)
	}
	so, _, exit, err := runACV(c.Cmd, f)
	if err != nil {
		return ev.Verdict{Discard: true, Detail: err.Error(), Obs: map[string]int{"helper_failures": 1}}
	}
	if werr != nil {
		if exit == 0 {
			return ev.Violation("c18-exit0-on-failure", "acv %s exits 0 although the library fails: %v\ninput:\n%s", c.Cmd, werr, trunc(c.Text, 800))
		}
		if so != "" {
			return ev.Violation("c18-output-on-failure", "acv %s failed (exit %d) but printed %q", c.Cmd, exit, trunc(so, 200))
		}
		return ev.Verdict{OK: true, NonTrivial: true, Labels: []string{c.Cmd + ":failure"}}
	}
	if exit != 0 {
		return ev.Violation("c18-nonzero-exit-on-success", "acv %s exits %d, the library succeeds\ninput:\n%s", c.Cmd, exit, trunc(c.Text, 800))
	}
	if so != want+"\n" {
		return ev.Violation("c18-"+c.Cmd+"-output-differs", "acv %s does not print exactly the library's output (+ newline)\n%s", c.Cmd, firstDiff(want+"\n", so))
	}
	return ev.Verdict{OK: true, NonTrivial: true, Labels: []string{c.Cmd + ":ok"}}
}

func TestC18Hook(t *testing.T) {
	ev.Run(t, "C18", genC18Hook, decideC18Hook)
	_ = m.NS
}
