package props

import (
	"encoding/json"
	"fmt"
	"sort"
	"strings"
	"testing"

	"pgregory.net/rapid"
	"verifharness/ev"
	m "verifharness/model"
)

type c02Case struct {
	Path        *m.P     `json:"path"`
	PathText    string   `json:"path_text"`
	Graph       *m.Graph `json:"graph"`
	ProfileText string   `json:"profile_text"`
	DataText    string   `json:"data_text"`
	Route       int      `json:"route,omitempty"` // entry point producing the report (see validateVia)
}

type pgen struct {
	t      *rapid.T
	leaves int
	ext    bool // also draw custom-domain-property steps (apiExt.w0, apiExt.w1)
}

func (g *pgen) leaf() *m.P {
	g.leaves--
	if g.ext && rapid.IntRange(0, 7).Draw(g.t, "extLeaf") == 0 {
		return m.Ext(fmt.Sprintf("w%d", rapid.IntRange(0, 1).Draw(g.t, "extName")), rapid.IntRange(0, 2).Draw(g.t, "extInv") == 0)
	}
	switch rapid.IntRange(0, 9).Draw(g.t, "leafKind") {
	case 0:
		return m.TypeStep()
	case 1, 2:
		return m.Pred(fmt.Sprintf("p%d", rapid.IntRange(0, 1).Draw(g.t, "lit")), rapid.IntRange(0, 4).Draw(g.t, "invLit") == 0)
	default:
		return m.Pred(fmt.Sprintf("e%d", rapid.IntRange(0, 2).Draw(g.t, "edge")), rapid.IntRange(0, 2).Draw(g.t, "inv") == 0)
	}
}

func (g *pgen) path(depth int) *m.P {
	if depth >= 3 || g.leaves <= 1 || rapid.IntRange(0, 2).Draw(g.t, "isLeaf") == 0 {
		return g.leaf()
	}
	n := rapid.IntRange(2, 3).Draw(g.t, "arity")
	kind := rapid.SampledFrom([]string{"seq", "seq", "alt"}).Draw(g.t, "pkind")
	var subs []*m.P
	for i := 0; i < n; i++ {
		subs = append(subs, g.path(depth+1))
	}
	return &m.P{Kind: kind, Sub: subs}
}

func genPathGraph(t *rapid.T, maxNodes int) *m.Graph {
	n := rapid.IntRange(2, maxNodes).Draw(t, "nodes")
	g := &m.Graph{}
	for i := 0; i < n; i++ {
		switch rapid.IntRange(0, 3).Draw(t, "class") {
		case 0:
			g.Add(classOther)
		case 1:
			g.Add(classTest, classOther)
		default:
			g.Add(classTest)
		}
	}
	// nodes that are not targets may be blank nodes (JSON-LD relabels them, so they are compared by count)
	for i := 0; i < n; i++ {
		if !g.Nodes[i].HasType(classTest) && rapid.IntRange(0, 3).Draw(t, "blank") == 0 {
			g.Nodes[i].ID = fmt.Sprintf("_:x%d", i)
		}
	}
	litPool := []m.Lit{m.S("a"), m.S("b"), m.I(1), m.I(2), m.B(true), m.S("1")}
	for i := 0; i < n; i++ {
		nd := g.Nodes[i]
		for e := 0; e < 3; e++ {
			k := rapid.IntRange(0, 2).Draw(t, "deg")
			for j := 0; j < k; j++ {
				nd.AddVal(fmt.Sprintf("%se%d", m.NS, e), m.NV(rapid.IntRange(0, n-1).Draw(t, "tgt")))
			}
			if rapid.IntRange(0, 7).Draw(t, "litInEdge") == 0 {
				nd.AddVal(fmt.Sprintf("%se%d", m.NS, e), m.LV(pick(t, litPool, "strayLit")))
			}
		}
		for p := 0; p < 2; p++ {
			for _, l := range subset(t, litPool, 0, 2, "lits") {
				nd.AddVal(fmt.Sprintf("%sp%d", m.NS, p), m.LV(l))
			}
			if rapid.IntRange(0, 7).Draw(t, "nodeInLit") == 0 {
				nd.AddVal(fmt.Sprintf("%sp%d", m.NS, p), m.NV(rapid.IntRange(0, n-1).Draw(t, "tgt2")))
			}
		}
	}
	// custom domain properties: extension nodes named w0/w1 hanging off some nodes, with values and edges of their own
	for i := 0; i < n; i++ {
		k := rapid.IntRange(0, 4).Draw(t, "extensions")
		if k > 2 {
			k = 0
		}
		for j := 0; j < k; j++ {
			x := g.Add(m.NS + "Extension")
			g.AttachExtension(i, x, fmt.Sprintf("w%d", rapid.IntRange(0, 1).Draw(t, "extName")))
			for _, l := range subset(t, litPool, 0, 2, "extLits") {
				g.Nodes[x].AddVal(m.NS+"p0", m.LV(l))
			}
			if rapid.Bool().Draw(t, "extEdge") {
				g.Nodes[x].AddVal(m.NS+"e0", m.NV(rapid.IntRange(0, n-1).Draw(t, "extTgt")))
			}
		}
	}
	return g
}

func pathStyle(t *rapid.T) m.PrintStyle {
	return func(n int) int {
		if n == 5 { // redundant parentheses: keep them occasional
			if rapid.IntRange(0, 5).Draw(t, "paren") == 0 {
				return 1
			}
			return 0
		}
		return rapid.IntRange(0, n-1).Draw(t, "style")
	}
}

func pathProfile(name, pathText string) string {
	y := m.YMap()
	y.Set("profile", m.YStr(name))
	y.Set("prefixes", m.YMap().Set("ex", m.YStr(m.NS)))
	lv := m.YSeq(m.YStr("vin"), m.YStr("vcnt"), m.YStr("vnest"), m.YStr("vall"))
	for _, sc := range c02SetConstraints {
		lv.Items = append(lv.Items, m.YStr(sc.name))
	}
	y.Set("violation", lv)
	vs := m.YMap()
	mk := func(c *m.Y) *m.Y {
		v := m.YMap()
		v.Set("targetClass", m.YStr("ex.Test"))
		v.Set("propertyConstraints", m.YMap().Set(pathText, c))
		return v
	}
	vs.Set("vin", mk(m.YMap().Set("in", m.YSeq(m.YStr("zz-unmatchable")))))
	vs.Set("vcnt", mk(m.YMap().Set("exactCount", m.YInt(99))))
	inner := m.YMap().Set("propertyConstraints", m.YMap().Set("ex.zzz", m.YMap().Set("minCount", m.YInt(1))))
	vs.Set("vnest", mk(m.YMap().Set("nested", inner)))
	// the same three constraints under ONE path key: every constraint of the map must see the same path
	all := m.YMap()
	all.Set("in", m.YSeq(m.YStr("zz-unmatchable")))
	all.Set("exactCount", m.YInt(99))
	all.Set("nested", inner.Clone())
	vs.Set("vall", mk(all))
	// set constraints look at the value set as a whole: what the path denotes, not what each alternative denotes
	for _, sc := range c02SetConstraints {
		vs.Set(sc.name, mk(m.YMap().Set(sc.kind, sc.list())))
	}
	y.Set("validations", vs)
	return y.Print(m.YOpts{})
}

type c02SetConstraint struct {
	name, kind string
	members    []string // printed forms; "2" is written as the integer 2
}

func (sc c02SetConstraint) list() *m.Y {
	seq := m.YSeq()
	for _, x := range sc.members {
		if x == "2" {
			seq.Items = append(seq.Items, m.YInt(2))
		} else {
			seq.Items = append(seq.Items, m.YStr(x))
		}
	}
	return seq
}

var c02SetConstraints = []c02SetConstraint{
	{"vsomeA", "containsSome", []string{"a"}}, {"vsomeB2", "containsSome", []string{"b", "2"}},
	{"vallAB", "containsAll", []string{"a", "b"}}, {"vallA2", "containsAll", []string{"a", "2"}}, {"vallTrueB", "containsAll", []string{"true", "b"}},
}

func genC02(t *rapid.T) c02Case {
	pg := &pgen{t: t, leaves: 6, ext: true}
	if ev.Thorough() {
		pg.leaves = 10
	}
	p := pg.path(0)
	g := genPathGraph(t, 7)
	c := c02Case{Path: p, Graph: g}
	c.PathText = p.Print(pathStyle(t))
	c.ProfileText = pathProfile("c02", c.PathText)
	c.DataText = g.JSONLD(m.LDOpts{})
	c.Route = rapid.SampledFrom([]int{0, 0, 1, 2, 3}).Draw(t, "route")
	return c
}

func traceValues(r m.Result) []map[string]any {
	var out []map[string]any
	tr, _ := r.Raw["trace"].([]any)
	for _, x := range tr {
		if tm, ok := x.(map[string]any); ok {
			if tv, ok := tm["traceValue"].(map[string]any); ok {
				out = append(out, tv)
			}
		}
	}
	return out
}

// traceValuesOf returns the traceValue objects of the traces of one component.
func traceValuesOf(r m.Result, component string) []map[string]any {
	var out []map[string]any
	tr, _ := r.Raw["trace"].([]any)
	for _, x := range tr {
		if tm, ok := x.(map[string]any); ok {
			if comp, _ := tm["component"].(string); comp != component {
				continue
			}
			if tv, ok := tm["traceValue"].(map[string]any); ok {
				out = append(out, tv)
			}
		}
	}
	return out
}

func decideC02(c c02Case) ev.Verdict {
	if verdict, _ := m.RefParsePath(c.PathText); verdict != m.Accept {
		return ev.Verdict{Discard: true, Detail: "printed path is not a plain sentence of the grammar: " + c.PathText}
	}
	// the profile is a function of the path text (saved replay cases may predate a change of its shape)
	c.ProfileText = pathProfile("c02", c.PathText)
	res := validateVia(c.Route, c.ProfileText, c.DataText)
	if res.failed() {
		return ev.Violation("c02-call-failed:"+classifyErr(res), "path %q: validation failed: %s\n%s", c.PathText, trunc(res.errString(), 500), c.ProfileText)
	}
	rep, err := m.ParseReport(res.Report)
	if err != nil {
		return ev.Violation("c02-bad-report", "%v", err)
	}
	v := ev.Verdict{OK: true}
	anyNonEmpty, multiRoute, o13 := false, false, false
	for i, n := range c.Graph.Nodes {
		if !n.HasType(classTest) {
			continue
		}
		den := c.Path.Denote(c.Graph, i)
		var wantStrings, wantNodes []string
		fwdInv := false
		for _, r := range den {
			if r.Val.Lit != nil {
				wantStrings = append(wantStrings, r.Val.Lit.AsString())
			} else {
				wantStrings = append(wantStrings, c.Graph.Nodes[r.Val.Node].ID)
				wantNodes = append(wantNodes, c.Graph.Nodes[r.Val.Node].ID)
				// one node, several representations in the value set (link object / whole node / id string)
				reps := 0
				for _, k := range []string{"fwd", "inv", "ext"} {
					if r.Finals[k] {
						reps++
					}
				}
				if reps >= 2 {
					fwdInv = true
				}
			}
		}
		wantStrings = blankByCount(dedupSorted(wantStrings))
		wantNodes = blankByCount(dedupSorted(wantNodes))
		if len(den) > 0 {
			anyNonEmpty = true
		}
		for _, grp := range []struct{ in, cnt, nest, tag string }{{"vin", "vcnt", "vnest", "separate validations"}, {"vall", "vall", "vall", "one constraint map"}} {
			// (1) values seen by `in`
			var gotStrings []string
			for _, r := range rep.Results {
				if r.Shape == grp.in && r.Focus == n.ID {
					for _, tv := range traceValuesOf(r, "in") {
						if a, ok := tv["actual"].(string); ok {
							gotStrings = append(gotStrings, a)
						} else {
							return ev.Violation("c02-in-trace-shape", "in trace has no string actual: %v", tv)
						}
					}
				}
			}
			gotStrings = blankByCount(dedupSorted(gotStrings))
			if !m.EqualStrings(wantStrings, gotStrings) {
				return ev.Violation("c02-values-mismatch", "path %q from %s (%s): constraint applied to values %v, the path denotes %v\ngraph:\n%s", c.PathText, n.ID, grp.tag, gotStrings, wantStrings, c.Graph)
			}
			// (2) distinct count
			gotCount := int64(-1)
			for _, r := range rep.Results {
				if r.Shape == grp.cnt && r.Focus == n.ID {
					for _, tv := range traceValuesOf(r, "exactCount") {
						if num, ok := tv["actual"].(json.Number); ok {
							gotCount, _ = num.Int64()
						}
					}
				}
			}
			if gotCount != int64(len(den)) {
				sig := "c02-count-mismatch"
				if fwdInv {
					sig = "c02-forward-inverse-double-count"
				}
				vv := ev.Violation(sig, "path %q from %s (%s): exactCount saw %d values, the path denotes %d distinct values %v\ngraph:\n%s", c.PathText, n.ID, grp.tag, gotCount, len(den), wantStrings, c.Graph)
				return vv
			}
			if fwdInv {
				o13 = true
			}
			// (3) nodes seen by nested
			var gotNodes []string
			failed := int64(-1)
			reported := false
			for _, r := range rep.Results {
				if r.Shape == grp.nest && r.Focus == n.ID && len(traceValuesOf(r, "nested")) > 0 {
					reported = true
					for _, tv := range traceValuesOf(r, "nested") {
						if num, ok := tv["failedNodes"].(json.Number); ok {
							failed, _ = num.Int64()
						}
						if subs, ok := tv["subResult"].([]any); ok {
							for _, s := range subs {
								if sm, ok := s.(map[string]any); ok {
									if f, ok := sm["focusNode"].(string); ok {
										gotNodes = append(gotNodes, f)
									}
								}
							}
						}
					}
				}
			}
			gotNodes = blankByCount(dedupSorted(gotNodes))
			if reported != (len(wantNodes) > 0) {
				return ev.Violation("c02-nested-presence", "path %q from %s (%s): nested reported=%v, the path reaches nodes %v", c.PathText, n.ID, grp.tag, reported, short(wantNodes))
			}
			// failedNodes is compared only when the trace carries it (its name is not part of the property)
			if reported && (!m.EqualStrings(wantNodes, gotNodes) || (failed >= 0 && failed != int64(len(wantNodes)))) {
				return ev.Violation("c02-nested-nodes-mismatch", "path %q from %s (%s): nested visited %v (failedNodes=%d), the path reaches %v\ngraph:\n%s", c.PathText, n.ID, grp.tag, short(gotNodes), failed, short(wantNodes), c.Graph)
			}
		}
		// (4) set constraints over the literal values of the denotation
		images := map[string]bool{}
		for _, r := range den {
			if r.Val.Lit != nil {
				images[r.Val.Lit.AsString()] = true
			}
		}
		for _, sc := range c02SetConstraints {
			hit := 0
			for _, x := range sc.members {
				if images[x] {
					hit++
				}
			}
			sat := hit > 0
			if sc.kind == "containsAll" {
				sat = hit == len(sc.members)
			}
			want := len(den) > 0 && !sat
			got := false
			for _, r := range rep.Results {
				if r.Shape == sc.name && r.Focus == n.ID {
					got = true
				}
			}
			if got != want {
				return ev.Violation("c02-set-constraint-mismatch", "path %q from %s: %s %v reported=%v, but the path denotes the values %v (should be reported=%v)\ngraph:\n%s", c.PathText, n.ID, sc.kind, sc.members, got, wantStrings, want, c.Graph)
			}
		}
		if len(wantNodes) > 0 {
			// a node reached by several routes?
			for _, r := range den {
				if len(r.Finals) > 1 {
					multiRoute = true
				}
			}
		}
	}
	v.Labels = pathLabels(c.Path)
	if multiRoute {
		v.Labels = append(v.Labels, "value-reached-through-different-final-steps")
	}
	if o13 {
		v.Labels = append(v.Labels, "forward-and-inverse-reach-one-node")
	}
	v.NonTrivial = c.Path.Ops() >= 2 && anyNonEmpty
	return v
}

// blankByCount replaces blank-node labels (relabelled by JSON-LD processing) by positional placeholders, so that
// sets are compared exactly on IRIs and literals and by number on blank nodes. Input must be sorted and distinct.
func blankByCount(ss []string) []string {
	var out []string
	k := 0
	for _, s := range ss {
		if strings.HasPrefix(s, "_:") {
			out = append(out, fmt.Sprintf("_:blank#%d", k))
			k++
		} else {
			out = append(out, s)
		}
	}
	sort.Strings(out)
	return out
}

func dedupSorted(ss []string) []string {
	sort.Strings(ss)
	var out []string
	for i, s := range ss {
		if i == 0 || s != ss[i-1] {
			out = append(out, s)
		}
	}
	return out
}

func pathLabels(p *m.P) []string {
	set := map[string]bool{}
	var walk func(x *m.P, parents string)
	walk = func(x *m.P, parents string) {
		switch x.Kind {
		case "pred":
			if x.Inv {
				set["inverse-step"] = true
				if strings.Contains(parents, "alt") {
					set["inverse-inside-alternative"] = true
				}
			}
			if strings.HasPrefix(x.Name, "p") {
				set["literal-property-step"] = true
			}
		case "type":
			set["@type-step"] = true
		case "ext":
			set["custom-property-step"] = true
			if x.Inv {
				set["custom-property-inverse-step"] = true
			}
		}
		if x.Kind == "alt" && strings.Contains(parents, "seq") && strings.Contains(parents, "alt") {
			set["alt-in-seq-in-alt"] = true
		}
		if x.Kind == "seq" && strings.Contains(parents, "alt") {
			set["seq-inside-alt"] = true
		}
		for _, s := range x.Sub {
			walk(s, parents+"/"+x.Kind)
		}
	}
	walk(p, "")
	out := []string{fmt.Sprintf("leaves:%d", p.Leaves())}
	for k := range set {
		out = append(out, k)
	}
	sort.Strings(out)
	return out
}

func TestC02(t *testing.T) {
	ev.Run(t, "C02", genC02, decideC02)
}

// ---------------------------------------------------------------- exhaustive small family

func smallPathFamily() []*m.P {
	leaves := []*m.P{m.Pred("e0", false), m.Pred("e0", true), m.Pred("e1", false), m.Pred("e1", true), m.Pred("p0", false), m.TypeStep(), m.Ext("w0", false), m.Ext("w0", true)}
	var out []*m.P
	out = append(out, leaves...)
	ops := []string{"seq", "alt"}
	for _, op := range ops {
		for _, a := range leaves {
			for _, b := range leaves {
				out = append(out, &m.P{Kind: op, Sub: []*m.P{a, b}})
			}
		}
	}
	for _, a := range leaves {
		for _, b := range leaves {
			for _, c := range leaves {
				for _, op := range ops {
					out = append(out, &m.P{Kind: op, Sub: []*m.P{a, b, c}})
					for _, op2 := range ops {
						if op2 == op {
							continue // same operator nested = the flat form up to associativity; keep the family small
						}
						out = append(out, &m.P{Kind: op, Sub: []*m.P{{Kind: op2, Sub: []*m.P{a, b}}, c}})
						out = append(out, &m.P{Kind: op, Sub: []*m.P{a, {Kind: op2, Sub: []*m.P{b, c}}}})
					}
				}
			}
		}
	}
	return out
}

// fixedPathGraph has a self-loop, a 2-cycle, a diamond, a literal inside an edge property and a node link inside a literal property.
func fixedPathGraph() *m.Graph {
	g := &m.Graph{}
	for i := 0; i < 5; i++ {
		if i%2 == 0 {
			g.Add(classTest)
		} else {
			g.Add(classTest, classOther)
		}
	}
	e0, e1, p0 := m.NS+"e0", m.NS+"e1", m.NS+"p0"
	n := g.Nodes
	n[0].AddVal(e0, m.NV(0)) // self-loop
	n[0].AddVal(e0, m.NV(1))
	n[0].AddVal(e1, m.NV(2))
	n[1].AddVal(e0, m.NV(3)) // diamond 0->1->3, 0->2->3
	n[2].AddVal(e0, m.NV(3))
	n[1].AddVal(e1, m.NV(0)) // 2-cycle with 0 over e0/e1
	n[3].AddVal(e1, m.NV(4))
	n[4].AddVal(e1, m.NV(3))
	n[2].AddVal(e0, m.LV(m.S("stray")))
	n[0].AddVal(p0, m.LV(m.S("a")))
	n[1].AddVal(p0, m.LV(m.S("a")))
	n[1].AddVal(p0, m.LV(m.I(7)))
	n[3].AddVal(p0, m.NV(0))
	n[4].AddVal(p0, m.LV(m.B(true)))
	// custom domain properties: n0 -w0-> x5, n1 -w0-> x7 and n1 -w1-> x9 (ids after the property nodes)
	x := g.Add(m.NS + "Extension")
	g.AttachExtension(0, x, "w0")
	g.Nodes[x].AddVal(p0, m.LV(m.S("a")))
	g.Nodes[x].AddVal(e0, m.NV(3))
	y := g.Add(m.NS + "Extension")
	g.AttachExtension(1, y, "w0")
	g.Nodes[y].AddVal(e1, m.NV(0))
	z := g.Add(m.NS + "Extension")
	g.AttachExtension(1, z, "w1")
	g.Nodes[z].AddVal(p0, m.LV(m.I(7)))
	return g
}

func TestC02SmallPaths(t *testing.T) {
	fam := smallPathFamily()
	g := fixedPathGraph()
	data := g.JSONLD(m.LDOpts{})
	shards, idx := shardEnv()
	var cases []c02Case
	for i, p := range fam {
		if i%shards != idx {
			continue
		}
		txt := p.Print(nil)
		cases = append(cases, c02Case{Path: p, PathText: txt, Graph: g, ProfileText: pathProfile("c02s", txt), DataText: data})
	}
	ev.RunFixed(t, "C02", cases, decideC02)
}
