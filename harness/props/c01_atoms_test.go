package props

import (
	"fmt"
	"math/big"
	"regexp"
	"strconv"
	"strings"
	"testing"
	"unicode/utf8"

	"pgregory.net/rapid"
	"verifharness/ev"
	m "verifharness/model"
)

// Generated atoms: the witness table fixes the meaning of every atomic kind at a few boundary values; this unit
// draws the *arguments* and the *values* of the per-value, count, set and comparison kinds at random and decides each
// atom with a few lines of independent arithmetic (rational comparison, code-point count, Go's regexp for patterns -
// the engine the policy language itself uses, so what is tested is how the translator carries the pattern into the
// policy, not the regular-expression engine). One validation per atom on the plain constraint, one on its negation
// over the nodes that hold exactly one value (DESIGN §6 I1).

type genAtom struct {
	Kind string  `json:"kind"`
	Str  string  `json:"str,omitempty"`  // pattern
	Int  int64   `json:"int,omitempty"`  // lengths, counts, integer bounds
	Dec  string  `json:"dec,omitempty"`  // decimal bound, as written in the profile
	List []m.Lit `json:"list,omitempty"` // in / containsAll / containsSome
}

type gaCase struct {
	Atoms       []genAtom   `json:"atoms"`
	Vals        [][][]m.Lit `json:"vals"`                // node x atom -> values of ex.p<atom>
	Vals2       [][][]m.Lit `json:"vals2"`               // node x atom -> values of ex.q<atom> (comparisons)
	NumStyle    int         `json:"num_style,omitempty"` // YAML spelling of the numbers in the profile
	Route       int         `json:"route,omitempty"`     // entry point producing the report (see validateVia)
	ProfileText string      `json:"profile_text"`
	DataText    string      `json:"data_text"`
}

func (a genAtom) argY() *m.Y {
	switch a.Kind {
	case "pattern":
		return m.YStr(a.Str)
	case "in", "containsAll", "containsSome":
		seq := m.YSeq()
		for _, l := range a.List {
			switch l.K {
			case "s":
				seq.Items = append(seq.Items, m.YStr(l.S))
			case "i":
				seq.Items = append(seq.Items, m.YInt(l.I))
			default:
				seq.Items = append(seq.Items, m.YBool(l.B))
			}
		}
		return seq
	case "lessThanProperty", "lessThanOrEqualsToProperty", "equalsToProperty", "disjointWithProperty":
		return nil
	}
	if a.Dec != "" {
		f, _ := strconv.ParseFloat(a.Dec, 64)
		return m.YFloat(f)
	}
	return m.YInt(a.Int)
}

func isCmpKind(k string) bool {
	return k == "lessThanProperty" || k == "lessThanOrEqualsToProperty" || k == "equalsToProperty" || k == "disjointWithProperty"
}

func isCountKind(k string) bool { return k == "minCount" || k == "maxCount" || k == "exactCount" }
func isSetKind(k string) bool   { return k == "containsAll" || k == "containsSome" }

// ratOf is the exact rational value of a numeric literal (integers and decimals as written in the data).
func ratOf(l m.Lit) (*big.Rat, bool) {
	switch l.K {
	case "i":
		return new(big.Rat).SetInt64(l.I), true
	case "f":
		r, ok := new(big.Rat).SetString(strconv.FormatFloat(l.F, 'f', -1, 64))
		return r, ok
	}
	return nil, false
}

func (a genAtom) bound() *big.Rat {
	if a.Dec != "" {
		r, _ := new(big.Rat).SetString(a.Dec)
		return r
	}
	return new(big.Rat).SetInt64(a.Int)
}

// valueOK decides a per-value kind on one value. ok=false: outside the domain this unit generates.
func (a genAtom) valueOK(l m.Lit) (sat bool, ok bool) {
	switch a.Kind {
	case "pattern":
		if l.K != "s" {
			return false, false
		}
		re, err := regexp.Compile(a.Str)
		if err != nil {
			return false, false
		}
		return re.MatchString(l.S), true
	case "minLength", "maxLength", "exactLength":
		if l.K != "s" {
			return false, false
		}
		n := int64(utf8.RuneCountInString(l.S))
		switch a.Kind {
		case "minLength":
			return n >= a.Int, true
		case "maxLength":
			return n <= a.Int, true
		}
		return n == a.Int, true
	case "minInclusive", "minExclusive", "maxInclusive", "maxExclusive":
		r, isNum := ratOf(l)
		if !isNum {
			return false, false
		}
		c := r.Cmp(a.bound())
		switch a.Kind {
		case "minInclusive":
			return c >= 0, true
		case "minExclusive":
			return c > 0, true
		case "maxInclusive":
			return c <= 0, true
		}
		return c < 0, true
	case "in":
		for _, x := range a.List {
			if x.Key() == l.Key() {
				return true, true
			}
		}
		// a value of another type whose printed form equals a list member is outside the domain
		for _, x := range a.List {
			if x.AsString() == l.AsString() {
				return false, false
			}
		}
		return false, true
	}
	return false, false
}

// truth decides the atom on a node's values.
func (a genAtom) truth(vals, vals2 []m.Lit) (tv bool, ok bool) {
	switch {
	case isCountKind(a.Kind):
		n := int64(len(vals))
		switch a.Kind {
		case "minCount":
			return n >= a.Int, true
		case "maxCount":
			return n <= a.Int, true
		}
		return n == a.Int, true
	case isSetKind(a.Kind):
		if len(vals) == 0 {
			return false, false
		}
		hit := 0
		distinct := map[string]bool{}
		for _, x := range a.List {
			if distinct[x.Key()] {
				continue
			}
			distinct[x.Key()] = true
			found := false
			for _, v := range vals {
				if v.Key() == x.Key() {
					found = true
				} else if v.AsString() == x.AsString() {
					return false, false
				}
			}
			if found {
				hit++
			}
		}
		if a.Kind == "containsAll" {
			return hit == len(distinct), true
		}
		return hit > 0, true
	case isCmpKind(a.Kind):
		for _, x := range vals {
			for _, y := range vals2 {
				rx, okx := ratOf(x)
				ry, oky := ratOf(y)
				if !okx || !oky {
					return false, false
				}
				c := rx.Cmp(ry)
				var good bool
				switch a.Kind {
				case "lessThanProperty":
					good = c < 0
				case "lessThanOrEqualsToProperty":
					good = c <= 0
				case "equalsToProperty":
					good = c == 0
				default:
					good = c != 0
				}
				if !good {
					return false, true
				}
			}
		}
		return true, true
	}
	for _, v := range vals {
		s, vok := a.valueOK(v)
		if !vok {
			return false, false
		}
		if !s {
			return false, true
		}
	}
	return true, true
}

// ---------------------------------------------------------------- generators

// a small regular-expression grammar with a sampler: the pattern text and a string it matches are built together
type rxPiece struct {
	src    string
	sample func(t *rapid.T) string
}

var rxLiterals = []string{"a", "b", "c", "x", "0", "7", " ", "-", "_", "/", ":", "\"", "'", "`", "%", "#", "{", "}", "é", "日", ".", "\\", "$", "+", "(", "|", "[", "*", "?"}

func genRxPiece(t *rapid.T, depth int) rxPiece {
	var p rxPiece
	switch rapid.IntRange(0, 9).Draw(t, "rxKind") {
	case 0, 1, 2:
		lit := rapid.SampledFrom(rxLiterals).Draw(t, "rxLit")
		p = rxPiece{src: regexp.QuoteMeta(lit), sample: func(*rapid.T) string { return lit }}
	case 3:
		p = rxPiece{src: `\d`, sample: func(t *rapid.T) string { return rapid.SampledFrom([]string{"0", "5", "9"}).Draw(t, "d") }}
	case 4:
		p = rxPiece{src: `\w`, sample: func(t *rapid.T) string { return rapid.SampledFrom([]string{"a", "Z", "_", "3"}).Draw(t, "w") }}
	case 5:
		p = rxPiece{src: `[a-c]`, sample: func(t *rapid.T) string { return rapid.SampledFrom([]string{"a", "b", "c"}).Draw(t, "cl") }}
	case 6:
		p = rxPiece{src: `[^ab"]`, sample: func(t *rapid.T) string { return rapid.SampledFrom([]string{"c", "x", "'", "\\"}).Draw(t, "ncl") }}
	case 7:
		p = rxPiece{src: `.`, sample: func(t *rapid.T) string { return rapid.SampledFrom([]string{"a", "\"", "é", "/"}).Draw(t, "dot") }}
	case 8:
		p = rxPiece{src: `\s`, sample: func(*rapid.T) string { return " " }}
	default:
		if depth >= 2 {
			p = rxPiece{src: "ab", sample: func(*rapid.T) string { return "ab" }}
			break
		}
		n := rapid.IntRange(2, 3).Draw(t, "rxAlts")
		alts := make([][]rxPiece, n)
		srcs := make([]string, n)
		for i := range alts {
			k := rapid.IntRange(1, 2).Draw(t, "rxAltLen")
			for j := 0; j < k; j++ {
				q := genRxPiece(t, depth+1)
				alts[i] = append(alts[i], q)
				srcs[i] += q.src
			}
		}
		p = rxPiece{src: "(" + strings.Join(srcs, "|") + ")", sample: func(t *rapid.T) string {
			alt := alts[rapid.IntRange(0, n-1).Draw(t, "rxPick")]
			s := ""
			for _, q := range alt {
				s += q.sample(t)
			}
			return s
		}}
	}
	switch rapid.IntRange(0, 7).Draw(t, "rxQuant") {
	case 0:
		inner := p
		p = rxPiece{src: inner.src + "+", sample: func(t *rapid.T) string {
			return strings.Repeat(inner.sample(t), rapid.IntRange(1, 3).Draw(t, "rep"))
		}}
	case 1:
		inner := p
		p = rxPiece{src: inner.src + "*", sample: func(t *rapid.T) string {
			return strings.Repeat(inner.sample(t), rapid.IntRange(0, 2).Draw(t, "rep"))
		}}
	case 2:
		inner := p
		p = rxPiece{src: inner.src + "?", sample: func(t *rapid.T) string {
			return strings.Repeat(inner.sample(t), rapid.IntRange(0, 1).Draw(t, "rep"))
		}}
	case 3:
		inner := p
		p = rxPiece{src: inner.src + "{2,3}", sample: func(t *rapid.T) string {
			return strings.Repeat(inner.sample(t), rapid.IntRange(2, 3).Draw(t, "rep"))
		}}
	}
	return p
}

func genPattern(t *rapid.T) (src string, sample func(*rapid.T) string) {
	n := rapid.IntRange(1, 4).Draw(t, "rxLen")
	pieces := make([]rxPiece, n)
	for i := range pieces {
		pieces[i] = genRxPiece(t, 0)
		src += pieces[i].src
	}
	pre, post := rapid.Bool().Draw(t, "rxAnchorL"), rapid.Bool().Draw(t, "rxAnchorR")
	if pre {
		src = "^" + src
	}
	if post {
		src += "$"
	}
	return src, func(t *rapid.T) string {
		s := ""
		for _, p := range pieces {
			s += p.sample(t)
		}
		return s
	}
}

var gaStringPool = []string{"", "a", "ab", "abc", "b c", "x\"y", "it's", "back\\slash", "per%cent", "{{b}}", "$node", "tick`", "line\nbreak", "é", "日本語", "tab\there", "#hash", "a:b", " lead", "trail "}

func mutateString(t *rapid.T, s string) string {
	rs := []rune(s)
	alphabet := []rune("abx07 \"'`\\%.é")
	switch rapid.IntRange(0, 3).Draw(t, "mut") {
	case 0:
		if len(rs) > 0 {
			i := rapid.IntRange(0, len(rs)-1).Draw(t, "mutAt")
			rs = append(rs[:i:i], rs[i+1:]...)
		}
	case 1:
		i := rapid.IntRange(0, len(rs)).Draw(t, "mutAt")
		c := rapid.SampledFrom(alphabet).Draw(t, "mutCh")
		rs = append(rs[:i:i], append([]rune{c}, rs[i:]...)...)
	case 2:
		if len(rs) > 0 {
			i := rapid.IntRange(0, len(rs)-1).Draw(t, "mutAt")
			rs[i] = rapid.SampledFrom(alphabet).Draw(t, "mutCh")
		}
	default:
		rs = append(rs, rs...)
	}
	return string(rs)
}

// decimal texts with up to nine decimals (more than the six a %f rendering keeps)
func genDecimal(t *rapid.T, label string) string {
	whole := rapid.SampledFrom([]int64{0, 0, 1, 2, 5, 25, 50, 100, 99999, 2147483648, -1, -5, -50}).Draw(t, label+"Whole")
	digits := rapid.IntRange(1, 9).Draw(t, label+"Digits")
	if w := len(strconv.FormatInt(whole, 10)); digits > 15-w-1 {
		digits = 15 - w - 1 // a float64 carries 15 significant decimal digits exactly; the generator stays below that
	}
	frac := ""
	for i := 0; i < digits; i++ {
		frac += strconv.Itoa(rapid.IntRange(0, 9).Draw(t, label+"D"))
	}
	frac = strings.TrimRight(frac, "0")
	if frac == "" {
		frac = "5"
	}
	s := strconv.FormatInt(whole, 10) + "." + frac
	if whole == 0 && rapid.Bool().Draw(t, label+"Neg") {
		s = "-" + s
	}
	return s
}

func decLit(s string) m.Lit {
	f, _ := strconv.ParseFloat(s, 64)
	return m.Fl(f)
}

// numbers around a bound: the bound itself, the nearest neighbours at several scales, and unrelated numbers
func genNumberNear(t *rapid.T, a genAtom) m.Lit {
	b := a.bound()
	deltas := []string{"0", "0", "1", "-1", "0.5", "-0.5", "0.001", "-0.001", "0.000001", "-0.000001", "0.0000001", "-0.0000001", "0.000000001", "-0.000000001", "1000", "-1000"}
	d, _ := new(big.Rat).SetString(rapid.SampledFrom(deltas).Draw(t, "delta"))
	v := new(big.Rat).Add(b, d)
	if v.IsInt() {
		return m.I(v.Num().Int64())
	}
	text := strings.TrimRight(v.FloatString(9), "0")
	if len(strings.Trim(strings.Replace(text, ".", "", 1), "-0")) > 14 {
		// more significant digits than a float64 keeps: use the bound itself
		if b.IsInt() {
			return m.I(b.Num().Int64())
		}
		text = strings.TrimRight(b.FloatString(9), "0")
	}
	return decLit(text)
}

func genListMember(t *rapid.T, kind string) m.Lit {
	switch kind {
	case "int":
		return m.I(rapid.SampledFrom([]int64{0, 1, 2, 7, 10, 12, -1, 100, 2147483648}).Draw(t, "li"))
	case "bool":
		return m.B(rapid.Bool().Draw(t, "lb"))
	}
	return m.S(rapid.SampledFrom(gaStringPool).Draw(t, "ls"))
}

func genAtomAndValues(t *rapid.T, nodes int) (genAtom, [][]m.Lit, [][]m.Lit) {
	kinds := []string{"pattern", "pattern", "minLength", "maxLength", "exactLength", "minInclusive", "minExclusive", "maxInclusive", "maxExclusive",
		"in", "containsAll", "containsSome", "minCount", "maxCount", "exactCount",
		"lessThanProperty", "lessThanOrEqualsToProperty", "equalsToProperty", "disjointWithProperty"}
	a := genAtom{Kind: rapid.SampledFrom(kinds).Draw(t, "kind")}
	vals := make([][]m.Lit, nodes)
	vals2 := make([][]m.Lit, nodes)
	add := func(dst *[]m.Lit, l m.Lit) {
		for _, x := range *dst {
			if x.Key() == l.Key() {
				return
			}
		}
		*dst = append(*dst, l)
	}
	// number of values per node: mostly one (so that the negated twin applies), sometimes none or several
	count := func() int { return rapid.SampledFrom([]int{1, 1, 1, 1, 0, 2, 3}).Draw(t, "nvals") }
	switch {
	case a.Kind == "pattern":
		src, sample := genPattern(t)
		a.Str = src
		for i := range vals {
			for k := count(); k > 0; k-- {
				var s string
				switch rapid.IntRange(0, 3).Draw(t, "valKind") {
				case 0:
					s = sample(t)
				case 1:
					s = mutateString(t, sample(t))
				case 2:
					s = "z" + sample(t) + "z"
				default:
					s = rapid.SampledFrom(gaStringPool).Draw(t, "pool")
				}
				add(&vals[i], m.S(s))
			}
		}
	case strings.HasSuffix(a.Kind, "Length"):
		a.Int = int64(rapid.IntRange(0, 12).Draw(t, "len"))
		for i := range vals {
			for k := count(); k > 0; k-- {
				n := int(a.Int) + rapid.IntRange(-2, 2).Draw(t, "dlen")
				if n < 0 {
					n = 0
				}
				unit := rapid.SampledFrom([]string{"a", "a", "é", "日", " ", "\""}).Draw(t, "unit")
				add(&vals[i], m.S(strings.Repeat(unit, n)))
			}
		}
	case strings.HasSuffix(a.Kind, "clusive"):
		if rapid.Bool().Draw(t, "decBound") {
			a.Dec = genDecimal(t, "bound")
		} else {
			a.Int = rapid.SampledFrom([]int64{0, 1, 5, 25, 50, -1, -50, 1000000, 2147483648, 9007199254740993}).Draw(t, "intBound")
		}
		for i := range vals {
			for k := count(); k > 0; k-- {
				add(&vals[i], genNumberNear(t, a))
			}
		}
	case a.Kind == "in" || isSetKind(a.Kind):
		kind := rapid.SampledFrom([]string{"str", "str", "int", "bool", "mixed"}).Draw(t, "listKind")
		pick := func() m.Lit {
			k := kind
			if k == "mixed" {
				k = rapid.SampledFrom([]string{"str", "int", "bool"}).Draw(t, "mixedKind")
			}
			return genListMember(t, k)
		}
		for k := rapid.IntRange(1, 5).Draw(t, "listLen"); k > 0; k-- {
			a.List = append(a.List, pick()) // repeats allowed
		}
		for i := range vals {
			k := count()
			if isSetKind(a.Kind) && k == 0 {
				k = 1
			}
			for ; k > 0; k-- {
				if rapid.Bool().Draw(t, "fromList") {
					add(&vals[i], rapid.SampledFrom(a.List).Draw(t, "member"))
				} else {
					add(&vals[i], pick())
				}
			}
		}
	case isCountKind(a.Kind):
		a.Int = int64(rapid.IntRange(0, 6).Draw(t, "count"))
		for i := range vals {
			n := int(a.Int) + rapid.IntRange(-2, 2).Draw(t, "dcount")
			for k := 0; k < n; k++ {
				if k%2 == 0 {
					add(&vals[i], m.S("v"+strconv.Itoa(k)))
				} else {
					add(&vals[i], m.I(int64(k)))
				}
			}
		}
	default: // comparisons
		num := func(label string) m.Lit {
			if rapid.IntRange(0, 3).Draw(t, label+"Dec") == 0 {
				return decLit(genDecimal(t, label))
			}
			return m.I(int64(rapid.IntRange(-20, 20).Draw(t, label)))
		}
		for i := range vals {
			ka, kb := 1, 1
			if !(a.Kind == "equalsToProperty" || a.Kind == "disjointWithProperty") {
				ka, kb = count(), count()
			}
			for ; ka > 0; ka-- {
				add(&vals[i], num("x"))
			}
			for ; kb > 0; kb-- {
				if rapid.IntRange(0, 2).Draw(t, "same") == 0 && len(vals[i]) > 0 {
					add(&vals2[i], vals[i][0])
				} else {
					add(&vals2[i], num("y"))
				}
			}
		}
	}
	return a, vals, vals2
}

func genC01Atoms(t *rapid.T) gaCase {
	nodes := rapid.IntRange(4, 9).Draw(t, "nodes")
	k := rapid.IntRange(1, 4).Draw(t, "atoms")
	c := gaCase{Vals: make([][][]m.Lit, nodes), Vals2: make([][][]m.Lit, nodes)}
	for i := 0; i < k; i++ {
		a, v, v2 := genAtomAndValues(t, nodes)
		c.Atoms = append(c.Atoms, a)
		for n := 0; n < nodes; n++ {
			c.Vals[n] = append(c.Vals[n], v[n])
			c.Vals2[n] = append(c.Vals2[n], v2[n])
		}
	}
	c.NumStyle = rapid.SampledFrom([]int{0, 0, 0, 1, 2, 3, 4, 5, 6, 7}).Draw(t, "numStyle")
	c.ProfileText, c.DataText = c.render()
	c.Route = rapid.SampledFrom([]int{0, 0, 1, 2, 3}).Draw(t, "route")
	return c
}

func (c gaCase) single(n, i int) bool {
	a := c.Atoms[i]
	if isCountKind(a.Kind) || isSetKind(a.Kind) {
		return true
	}
	if isCmpKind(a.Kind) {
		return len(c.Vals[n][i]) == 1 && len(c.Vals2[n][i]) == 1
	}
	return len(c.Vals[n][i]) == 1
}

func (c gaCase) render() (string, string) {
	doc := m.YMap()
	doc.Set("profile", m.YStr("generated atoms"))
	pf := m.YMap()
	pf.Set("ex", m.YStr(m.NS))
	doc.Set("prefixes", pf)
	viol, warn := m.YSeq(), m.YSeq()
	vs := m.YMap()
	for i, a := range c.Atoms {
		cm := m.YMap()
		if isCmpKind(a.Kind) {
			cm.Set(a.Kind, m.YStr("ex.q"+strconv.Itoa(i)))
		} else {
			cm.Set(a.Kind, a.argY())
		}
		pc := m.YMap()
		pc.Set("ex.p"+strconv.Itoa(i), cm)
		body := m.YMap()
		body.Set("propertyConstraints", pc)
		pos := m.YMap()
		pos.Set("targetClass", m.YStr("ex.Test"))
		pos.Set("propertyConstraints", pc.Clone())
		neg := m.YMap()
		neg.Set("targetClass", m.YStr("ex.Single"+strconv.Itoa(i)))
		neg.Set("not", body)
		vs.Set("pos"+strconv.Itoa(i), pos)
		vs.Set("neg"+strconv.Itoa(i), neg)
		viol.Items = append(viol.Items, m.YStr("pos"+strconv.Itoa(i)))
		warn.Items = append(warn.Items, m.YStr("neg"+strconv.Itoa(i)))
	}
	doc.Set("violation", viol)
	doc.Set("warning", warn)
	doc.Set("validations", vs)
	g := &m.Graph{}
	for n := range c.Vals {
		types := []string{classTest}
		for i := range c.Atoms {
			if c.single(n, i) {
				types = append(types, m.NS+"Single"+strconv.Itoa(i))
			}
		}
		id := g.Add(types...)
		for i := range c.Atoms {
			for _, l := range c.Vals[n][i] {
				g.Nodes[id].AddVal(m.NS+"p"+strconv.Itoa(i), m.LV(l))
			}
			for _, l := range c.Vals2[n][i] {
				g.Nodes[id].AddVal(m.NS+"q"+strconv.Itoa(i), m.LV(l))
			}
		}
	}
	text := doc.Print(m.YOpts{NumStyle: c.NumStyle})
	if err := m.YAMLMatches(text, doc); err != nil {
		return "", "" // generator self-check: decided as a discard
	}
	return text, g.JSONLD(m.LDOpts{})
}

func decideC01Atoms(c gaCase) ev.Verdict {
	if c.ProfileText == "" {
		return ev.Verdict{Discard: true, Detail: "generated YAML does not round-trip"}
	}
	res := validateVia(c.Route, c.ProfileText, c.DataText)
	if res.failed() {
		kinds := ""
		for _, a := range c.Atoms {
			kinds += " " + a.Kind
		}
		return ev.Violation("c01-gen-atom-call-failed", "validation failed for generated atoms%s: %s\n%s", kinds, trunc(res.errString(), 600), c.ProfileText)
	}
	rep, err := m.ParseReport(res.Report)
	if err != nil {
		return ev.Violation("c01-bad-report", "%v", err)
	}
	labels := []string{}
	nontrivial := false
	for i, a := range c.Atoms {
		pos, neg := map[string]bool{}, map[string]bool{}
		for _, id := range rep.FocusSet("pos" + strconv.Itoa(i)) {
			pos[id] = true
		}
		for _, id := range rep.FocusSet("neg" + strconv.Itoa(i)) {
			neg[id] = true
		}
		sawT, sawF := false, false
		for n := range c.Vals {
			id := m.NodeID(n)
			tv, ok := a.truth(c.Vals[n][i], c.Vals2[n][i])
			if !ok {
				continue // values outside the domain: not judged
			}
			if tv {
				sawT = true
			} else {
				sawF = true
			}
			if pos[id] == tv {
				return ev.Violation("c01-gen-atom:"+a.Kind, "%s: values %v / %v make the constraint %v, but the node was reported=%v\n%s", a.describe(), keys(c.Vals[n][i]), keys(c.Vals2[n][i]), tv, pos[id], c.ProfileText)
			}
			if c.single(n, i) && neg[id] != tv {
				return ev.Violation("c01-gen-atom-negated:"+a.Kind, "not(%s): values %v / %v make the constraint %v, but the node was reported=%v\n%s", a.describe(), keys(c.Vals[n][i]), keys(c.Vals2[n][i]), tv, neg[id], c.ProfileText)
			}
		}
		labels = append(labels, "gen-atom:"+a.Kind)
		if c.NumStyle != 0 && (a.Dec != "" || a.List == nil && a.Str == "" && !isCmpKind(a.Kind)) {
			labels = append(labels, fmt.Sprintf("number-spelling-style:%d", c.NumStyle))
		}
		if a.Dec != "" {
			labels = append(labels, fmt.Sprintf("decimal-bound-with-%d-decimals", len(a.Dec)-strings.Index(a.Dec, ".")-1))
		}
		if a.Kind == "pattern" && strings.ContainsAny(a.Str, "`\"\\") {
			labels = append(labels, "pattern-with-quote-backtick-or-backslash")
		}
		if sawT && sawF {
			nontrivial = true
			labels = append(labels, "both-truth-values:"+a.Kind)
		}
	}
	return ev.Verdict{OK: true, NonTrivial: nontrivial, Labels: labels}
}

func (a genAtom) describe() string {
	switch {
	case a.Kind == "pattern":
		return fmt.Sprintf("pattern %q", a.Str)
	case a.List != nil:
		return fmt.Sprintf("%s %v", a.Kind, keys(a.List))
	case a.Dec != "":
		return a.Kind + " " + a.Dec
	case isCmpKind(a.Kind):
		return a.Kind
	}
	return fmt.Sprintf("%s %d", a.Kind, a.Int)
}

func TestC01GenAtoms(t *testing.T) {
	ev.Run(t, "C01", genC01Atoms, decideC01Atoms)
}

// ---------------------------------------------------------------- several atoms over one property

// Same-property combinations: two or three per-value atoms over ONE property, joined by or / and, on nodes holding
// zero to three values. Each atom quantifies over the values on its own ("all values are validated"): the node
// satisfies `or` when some atom holds for all its values, which is not the same as every value satisfying some atom.
type spCase struct {
	Family      string    `json:"family"` // "string" | "number"
	Op          string    `json:"op"`     // "or" | "and"
	Atoms       []genAtom `json:"atoms"`
	Vals        [][]m.Lit `json:"vals"` // node -> values of ex.p0
	Route       int       `json:"route,omitempty"`
	ProfileText string    `json:"profile_text"`
	DataText    string    `json:"data_text"`
}

func genC01SameProp(t *rapid.T) spCase {
	c := spCase{Family: rapid.SampledFrom([]string{"string", "string", "number"}).Draw(t, "family"), Op: rapid.SampledFrom([]string{"or", "or", "and"}).Draw(t, "op")}
	nodes := rapid.IntRange(4, 9).Draw(t, "nodes")
	k := rapid.IntRange(2, 3).Draw(t, "atoms")
	var pool []m.Lit
	for len(c.Atoms) < k {
		a, vals, _ := genAtomAndValues(t, nodes)
		stringKind := a.Kind == "pattern" || strings.HasSuffix(a.Kind, "Length")
		numberKind := strings.HasSuffix(a.Kind, "clusive")
		if (c.Family == "string" && !stringKind) || (c.Family == "number" && !numberKind) {
			continue
		}
		c.Atoms = append(c.Atoms, a)
		for _, vs := range vals {
			pool = append(pool, vs...)
		}
	}
	if len(pool) == 0 {
		pool = []m.Lit{m.S("a")}
		if c.Family == "number" {
			pool = []m.Lit{m.I(1)}
		}
	}
	c.Vals = make([][]m.Lit, nodes)
	for n := range c.Vals {
		for j := rapid.SampledFrom([]int{0, 1, 2, 2, 3}).Draw(t, "nvals"); j > 0; j-- {
			l := pool[rapid.IntRange(0, len(pool)-1).Draw(t, "val")]
			dup := false
			for _, x := range c.Vals[n] {
				if x.Key() == l.Key() {
					dup = true
				}
			}
			if !dup {
				c.Vals[n] = append(c.Vals[n], l)
			}
		}
	}
	c.Route = rapid.SampledFrom([]int{0, 0, 1, 2, 3}).Draw(t, "route")
	// profile: the plain spelling and one with every operand wrapped in a one-member `and`
	doc := m.YMap()
	doc.Set("profile", m.YStr("same property"))
	doc.Set("prefixes", m.YMap().Set("ex", m.YStr(m.NS)))
	doc.Set("violation", m.YSeq(m.YStr("plain"), m.YStr("wrapped")))
	plain, wrapped := m.YSeq(), m.YSeq()
	for _, a := range c.Atoms {
		op := m.YMap().Set("propertyConstraints", m.YMap().Set("ex.p0", m.YMap().Set(a.Kind, a.argY())))
		plain.Items = append(plain.Items, op)
		wrapped.Items = append(wrapped.Items, m.YMap().Set("and", m.YSeq(op.Clone())))
	}
	vs := m.YMap()
	vs.Set("plain", m.YMap().Set("targetClass", m.YStr("ex.Test")).Set(c.Op, plain))
	vs.Set("wrapped", m.YMap().Set("targetClass", m.YStr("ex.Test")).Set(c.Op, wrapped))
	doc.Set("validations", vs)
	c.ProfileText = doc.Print(m.YOpts{})
	if m.YAMLMatches(c.ProfileText, doc) != nil {
		c.ProfileText = ""
	}
	g := &m.Graph{}
	for n := range c.Vals {
		id := g.Add(classTest)
		for _, l := range c.Vals[n] {
			g.Nodes[id].AddVal(m.NS+"p0", m.LV(l))
		}
	}
	c.DataText = g.JSONLD(m.LDOpts{})
	return c
}

func decideC01SameProp(c spCase) ev.Verdict {
	if c.ProfileText == "" {
		return ev.Verdict{Discard: true, Detail: "generated YAML does not round-trip"}
	}
	res := validateVia(c.Route, c.ProfileText, c.DataText)
	if res.failed() {
		return ev.Violation("c01-gen-atom-call-failed", "validation failed for atoms over one property: %s\n%s", trunc(res.errString(), 600), c.ProfileText)
	}
	rep, err := m.ParseReport(res.Report)
	if err != nil {
		return ev.Violation("c01-bad-report", "%v", err)
	}
	reported := func(shape string) map[string]bool {
		out := map[string]bool{}
		for _, id := range rep.FocusSet(shape) {
			out[id] = true
		}
		return out
	}
	plain, wrapped := reported("plain"), reported("wrapped")
	sawT, sawF := false, false
	for n, vals := range c.Vals {
		id := m.NodeID(n)
		holds, judged := c.Op == "and", true
		for _, a := range c.Atoms {
			tv, ok := a.truth(vals, nil)
			if !ok {
				judged = false
				break
			}
			if c.Op == "or" {
				holds = holds || tv
			} else {
				holds = holds && tv
			}
		}
		if !judged {
			continue
		}
		if holds {
			sawT = true
		} else {
			sawF = true
		}
		if plain[id] == holds {
			return ev.Violation("c01-same-property-combination", "%s of %d atoms over ex.p0: values %v make the formula %v, but the node was reported=%v\n%s", c.Op, len(c.Atoms), keys(vals), holds, plain[id], c.ProfileText)
		}
		if wrapped[id] != plain[id] {
			return ev.Violation("c01-same-property-combination", "the same %s with every operand wrapped in a one-member `and` reports the node with values %v differently (%v / %v)\n%s", c.Op, keys(vals), plain[id], wrapped[id], c.ProfileText)
		}
	}
	return ev.Verdict{OK: true, NonTrivial: sawT && sawF, Labels: []string{"same-property:" + c.Op + ":" + c.Family}}
}

func TestC01SameProperty(t *testing.T) {
	ev.Run(t, "C01", genC01SameProp, decideC01SameProp)
}
