package props

import (
	"crypto/sha256"
	"fmt"
	"os"
	"runtime"
	"runtime/debug"
	"strconv"
	"strings"
	"time"

	"github.com/aml-org/amf-custom-validator/pkg"
	"github.com/aml-org/amf-custom-validator/pkg/config"
	"github.com/open-policy-agent/opa/rego"
	"verifharness/ev"
)

type fixedClock struct{ t time.Time }

func (f fixedClock) ReportCreationTime() time.Time { return f.t }

var clock0 = fixedClock{time.Date(2001, time.February, 3, 4, 5, 6, 0, time.UTC)}

// call is the outcome of one entry-point call, with panics captured.
type call struct {
	Report string
	Err    error
	Panic  string // non-empty when the call panicked
	Stack  string
}

func (c call) errString() string {
	if c.Panic != "" {
		return "PANIC: " + c.Panic
	}
	if c.Err != nil {
		return c.Err.Error()
	}
	return ""
}

func (c call) failed() bool { return c.Err != nil || c.Panic != "" }

func guard(f func() (string, error)) (c call) {
	defer func() {
		if r := recover(); r != nil {
			c.Panic = fmt.Sprint(r)
			c.Stack = string(debug.Stack())
		}
	}()
	c.Report, c.Err = f()
	return
}

// panicSite extracts the first frame inside the module under test from a stack.
func panicSite(stack string) string {
	lines := strings.Split(stack, "\n")
	for i := 0; i+1 < len(lines); i++ {
		l := lines[i]
		if strings.HasPrefix(l, "github.com/aml-org/amf-custom-validator/") && !strings.Contains(l, "/pkg/verifhook") {
			fn := l
			if k := strings.LastIndex(fn, "("); k > 0 {
				fn = fn[:k]
			}
			fn = strings.TrimPrefix(fn, "github.com/aml-org/amf-custom-validator/")
			return fn
		}
	}
	return "outside-module"
}

func validateFixed(profile, data string) call {
	return guard(func() (string, error) {
		return pkg.ValidateWithConfiguration(profile, data, false, nil, clock0, config.DefaultReportConfiguration())
	})
}

// Routes: the four ways of getting a report for (profile text, data text). Checks whose oracle does not look at
// dateCreated draw one per case: what a report says must not depend on the entry point that produced it.
var routeNames = []string{"ValidateWithConfiguration", "CompileProfile+ValidateCompiledWithConfiguration", "Validate", "CompileProfile+ValidateCompiled"}

func validateVia(route int, profile, data string) call { return validateViaDebug(route, false, profile, data) }

// validateViaDebug is validateVia with the entry points' debug flag (which must change nothing a caller can see)
func validateViaDebug(route int, debug bool, profile, data string) call {
	if debug {
		switch route % 4 {
		case 1, 3:
			q, cc := compileProfileDebug(profile, true)
			if cc.failed() {
				return cc
			}
			if route%4 == 1 {
				return guard(func() (string, error) {
					return pkg.ValidateCompiledWithConfiguration(q, data, true, nil, clock0, config.DefaultReportConfiguration())
				})
			}
			return guard(func() (string, error) { return pkg.ValidateCompiled(q, data, true, nil) })
		case 2:
			return guard(func() (string, error) { return pkg.Validate(profile, data, true, nil) })
		}
		return guard(func() (string, error) {
			return pkg.ValidateWithConfiguration(profile, data, true, nil, clock0, config.DefaultReportConfiguration())
		})
	}
	switch route % 4 {
	case 1:
		q, cc := compileProfile(profile)
		if cc.failed() {
			return cc
		}
		return validateCompiledFixed(q, data)
	case 2:
		return guard(func() (string, error) { return pkg.Validate(profile, data, false, nil) })
	case 3:
		q, cc := compileProfile(profile)
		if cc.failed() {
			return cc
		}
		return guard(func() (string, error) { return pkg.ValidateCompiled(q, data, false, nil) })
	}
	return validateFixed(profile, data)
}

func compileProfile(profile string) (q *rego.PreparedEvalQuery, c call) {
	return compileProfileDebug(profile, false)
}

func compileProfileDebug(profile string, debug bool) (q *rego.PreparedEvalQuery, c call) {
	c = guard(func() (string, error) {
		var err error
		q, err = pkg.CompileProfile(profile, debug, nil)
		return "", err
	})
	return
}

func validateCompiledFixed(q *rego.PreparedEvalQuery, data string) call {
	return guard(func() (string, error) {
		return pkg.ValidateCompiledWithConfiguration(q, data, false, nil, clock0, config.DefaultReportConfiguration())
	})
}

func trunc(s string, n int) string {
	if len(s) > n {
		return s[:n] + "…"
	}
	return s
}

// shardEnv returns (number of shards, this shard's index) as set by the driver.
func shardEnv() (int, int) {
	shards, _ := strconv.Atoi(os.Getenv("VERIF_SHARDS"))
	idx, _ := strconv.Atoi(os.Getenv("VERIF_SHARD_INDEX"))
	if shards <= 0 {
		return 1, 0
	}
	return shards, idx
}

// ---------------------------------------------------------------- termination

// noReturnSecs is the bound after which a call on a small input counts as "does not return" (C17: every entry
// point terminates). It is four orders of magnitude above what the same calls cost on the unchanged tree
// (milliseconds); VERIF_NORETURN_SECS overrides it.
func noReturnSecs() int {
	if s := os.Getenv("VERIF_NORETURN_SECS"); s != "" {
		if n, err := strconv.Atoi(s); err == nil && n > 0 {
			return n
		}
	}
	return 120
}

// returnsInTime runs f on its own goroutine. It reports false when f has not returned within the bound while a
// control computation that does not involve the code under test (started after the bound expired) completes at its
// usual speed: the machine is making progress and this call is not. The control deliberately stays outside the
// library: a defect that blocks every later call of the process (a leaked semaphore) would block a library control
// too. When the control is slow or does not complete, or the process has grown beyond 8 GiB while waiting, nothing
// can be concluded and the process ends as inconclusive. The runaway goroutine cannot be stopped,
// so the caller must end the process after a false result.
func returnsInTime[T any](id string, f func() T) (out T, ok bool) {
	done := make(chan T, 1)
	go func() { done <- f() }()
	limit := time.After(time.Duration(noReturnSecs()) * time.Second)
	tick := time.NewTicker(time.Second)
	defer tick.Stop()
	for {
		select {
		case out = <-done:
			return out, true
		case <-tick.C:
			var ms runtime.MemStats
			runtime.ReadMemStats(&ms)
			if ms.Sys > 8<<30 {
				ev.Inconclusive(id, "a call has not returned and the process grew to %d MiB", ms.Sys>>20)
			}
		case <-limit:
			// is the machine making progress at all? A fixed piece of work that does not touch the code under test
			// (hashing 16 MB) costs some tens of milliseconds; when it needs more than ten seconds, or the process
			// cannot even schedule it within a minute, nothing can be concluded about the call.
			ctl := make(chan time.Duration, 1)
			go func() {
				t0 := time.Now()
				h := sha256.New()
				block := make([]byte, 1<<20)
				for i := 0; i < 16; i++ {
					h.Write(block)
				}
				_ = h.Sum(nil)
				ctl <- time.Since(t0)
			}()
			select {
			case d := <-ctl:
				if d > 10*time.Second {
					ev.Inconclusive(id, "the machine is stalled (a fixed 16 MB hash took %v)", d)
				}
				// one more chance for a call that was merely slow
				select {
				case out = <-done:
					return out, true
				case <-time.After(5 * time.Second):
					return out, false
				}
			case out = <-done:
				return out, true
			case <-time.After(60 * time.Second):
				ev.Inconclusive(id, "neither the call nor a trivial control computation returned: the machine is stalled")
			}
		}
	}
}
