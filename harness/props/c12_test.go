package props

import (
	"encoding/json"
	"fmt"
	"os"
	"path/filepath"
	"strings"
	"testing"

	"pgregory.net/rapid"
	"verifharness/ev"
	m "verifharness/model"
)

type c12Case struct {
	ProfileText string        `json:"profile_text"`
	Shapes      []string      `json:"shapes"`
	Graph       *m.Graph      `json:"graph"`
	Maps        *m.SourceMaps `json:"source_maps,omitempty"`
	Opts        m.LDOpts      `json:"ld_opts"`
	// Route: "" the library call; "cli-stdout" what `acv validate P D` prints; "cli-file-fresh" / "cli-file-longer" /
	// "cli-file-shorter" what `acv validate P D OUT` leaves in OUT when OUT was absent / held more / held less
	Route string `json:"route,omitempty"`
	Entry int    `json:"entry,omitempty"` // library entry point producing the report (see validateVia)
}

func genC12(t *rapid.T) c12Case {
	g := &fgen{t: t, maxAtoms: 5, maxDepth: 4, maxWidth: 3, budget: 9, quant: true, edges: 2, multiPC: rapid.Bool().Draw(t, "multiPC"), viaPaths: true, companions: true, constants: true}
	if ev.Thorough() {
		g.maxDepth, g.budget = 5, 12
	}
	p := &m.Profile{Name: "c12"}
	nv := rapid.IntRange(1, 3).Draw(t, "nv")
	var c c12Case
	for i := 0; i < nv; i++ {
		g.budget = 8
		var body *m.F
		switch rapid.IntRange(0, 3).Draw(t, "shape") {
		case 0: // nested inside nested ...
			depth := rapid.IntRange(2, 4).Draw(t, "nestDepth")
			body = g.leaf(g.maxDepth)
			for d := 0; d < depth; d++ {
				body = m.Quant(pick(t, []string{"nested", "nested", "atLeast", "atMost"}, "q"), pick(t, []string{"e0", "e1"}, "edge"), rapid.IntRange(0, 2).Draw(t, "qn"), body)
			}
		case 1: // or of several atoms: several traces per result
			n := rapid.IntRange(2, 4).Draw(t, "orN")
			var subs []*m.F
			for k := 0; k < n; k++ {
				subs = append(subs, m.AtomF(g.atom()))
			}
			body = m.Or(subs...)
		default:
			body = g.bounded(40)
		}
		// some constraint keys become arbitrary path expressions (inverse steps, alternatives, @type): the trace must still
		// name component and path
		if rapid.IntRange(0, 2).Draw(t, "decorate") == 0 {
			ops := 0
			decoratePaths(t, body, &ops)
		}
		name := fmt.Sprintf("shape%d", i)
		c.Shapes = append(c.Shapes, name)
		p.Validations = append(p.Validations, m.Validation{Name: name, Level: pick(t, []string{"violation", "warning", "info"}, "level"), Class: "ex.Test", Body: body,
			Message: pick(t, []string{"", "bad {{ex.p0}}", "msg"}, "msg")})
	}
	decorateLevelLists(t, p)
	for _, v := range p.Validations {
		v.Body.MarkPolarity(m.Pos)
	}
	gr := randomGraph(t, g.atoms, []string{"e0", "e1"}, 7)
	c.ProfileText = p.ToY().Print(m.YOpts{})
	c.Graph = gr
	if rapid.Bool().Draw(t, "withMaps") {
		c.Maps = genSourceMaps(t, gr)
	}
	c.Opts = m.LDOpts{Unwrap1: rapid.Bool().Draw(t, "unwrap1"), Embed: rapid.Bool().Draw(t, "embed")}
	// the report a user reads is most often the one the command line tool prints or leaves in a file
	if rapid.IntRange(0, 7).Draw(t, "cliRoute") == 0 {
		c.Route = pick(t, []string{"cli-stdout", "cli-file-fresh", "cli-file-longer", "cli-file-shorter"}, "route")
	}
	genScale(t, gr, 16)
	c.Entry = rapid.SampledFrom([]int{0, 0, 1, 2, 3}).Draw(t, "entry")
	// one parent with more than a hundred children that all fail a nested validation: one trace with that many
	// sub-results, each of them a complete result
	if rapid.IntRange(0, 9).Draw(t, "manyChildren") == 0 {
		parent := gr.Add(classTest)
		k := rapid.SampledFrom([]int{99, 100, 101, 130, 260}).Draw(t, "children")
		for i := 0; i < k; i++ {
			ch := gr.Add(classOther)
			gr.Nodes[ch].AddVal(m.NS+"note", m.LV(m.S(fmt.Sprintf("child %d", i))))
			gr.Nodes[parent].AddVal(m.NS+"kids", m.NV(ch))
		}
		vm := m.YMap()
		vm.Set("targetClass", m.YStr("ex.Test"))
		kind := pick(t, []string{"nested", "atLeast", "atMost"}, "kidsKind")
		inner := m.YMap().Set("propertyConstraints", m.YMap().Set("ex.absent", m.YMap().Set("minCount", m.YInt(1))))
		if kind == "nested" {
			vm.Set("propertyConstraints", m.YMap().Set("ex.kids", m.YMap().Set("nested", inner)))
		} else if kind == "atLeast" {
			vm.Set("propertyConstraints", m.YMap().Set("ex.kids", m.YMap().Set("atLeast", m.YMap().Set("count", m.YInt(1)).Set("validation", inner))))
		} else {
			passing := m.YMap().Set("propertyConstraints", m.YMap().Set("ex.note", m.YMap().Set("minCount", m.YInt(1))))
			vm.Set("propertyConstraints", m.YMap().Set("ex.kids", m.YMap().Set("atMost", m.YMap().Set("count", m.YInt(1)).Set("validation", passing))))
		}
		c.ProfileText = appendValidation(c.ProfileText, "vkids", vm)
		c.Shapes = append(c.Shapes, "vkids")
	}
	// mass failure: a validation that every one of some thousand filler nodes fails - a report of a megabyte or more
	if rapid.IntRange(0, 11).Draw(t, "massFailure") == 0 {
		gr.Bulk, gr.BulkBlank = rapid.SampledFrom([]int{600, 1100, 1500}).Draw(t, "massNodes"), false
		vm := m.YMap()
		vm.Set("targetClass", m.YStr("ex.Filler"))
		vm.Set("message", m.YStr("a filler node without the property nobody has: {{ex.fillerLabel}}"))
		vm.Set("propertyConstraints", m.YMap().Set("ex.absent", m.YMap().Set("minCount", m.YInt(1))))
		c.ProfileText = appendValidation(c.ProfileText, "vfill", vm)
		c.Shapes = append(c.Shapes, "vfill")
	}
	return c
}

type c12Stats struct {
	results, maxTraces, maxDepth, maxSubs, locations int
}

func containsStr(v any, s string) bool {
	switch x := v.(type) {
	case string:
		return x == s
	case []any:
		for _, e := range x {
			if es, ok := e.(string); ok && es == s {
				return true
			}
		}
	}
	return false
}

// collectIDs checks that every typed object has an @id and gathers all ids.
func collectIDs(v any, path string, ids map[string]string) string {
	switch x := v.(type) {
	case map[string]any:
		_, typed := x["@type"]
		id, hasID := x["@id"]
		if typed && !hasID {
			return fmt.Sprintf("node at %s has @type but no @id", path)
		}
		if hasID {
			s, ok := id.(string)
			if !ok || s == "" {
				return fmt.Sprintf("@id at %s is not a non-empty string", path)
			}
			if prev, dup := ids[s]; dup {
				return fmt.Sprintf("@id %q used twice: at %s and at %s", s, prev, path)
			}
			ids[s] = path
		}
		isTraceValue := containsStr(x["@type"], "validation:TraceValue")
		for k, e := range x {
			if k == "@context" {
				continue
			}
			// the fields of a trace value other than subResult hold DATA of the input graph (e.g. `actual` may be a whole
			// input node reached by an inverse step, with its own @id and links): they are not nodes of the report
			if isTraceValue && k != "subResult" {
				continue
			}
			if msg := collectIDs(e, path+"/"+k, ids); msg != "" {
				return msg
			}
		}
	case []any:
		for i, e := range x {
			if msg := collectIDs(e, fmt.Sprintf("%s[%d]", path, i), ids); msg != "" {
				return msg
			}
		}
	}
	return ""
}

func checkResult(obj map[string]any, where string, top bool, shapes map[string]bool, nodeIDs map[string]bool, depth int, st *c12Stats) string {
	if depth > st.maxDepth {
		st.maxDepth = depth
	}
	f, ok := obj["focusNode"].(string)
	if !ok {
		return fmt.Sprintf("%s: focusNode is %v, not exactly one string", where, obj["focusNode"])
	}
	if !nodeIDs[f] {
		return fmt.Sprintf("%s: focusNode %q is not the @id of a node of the input graph", where, f)
	}
	name, ok := obj["sourceShapeName"].(string)
	if !ok {
		return fmt.Sprintf("%s: sourceShapeName missing", where)
	}
	if top && !shapes[name] {
		return fmt.Sprintf("%s: sourceShapeName %q is not a validation defined in the profile", where, name)
	}
	if !top && name != "nested" {
		return fmt.Sprintf("%s: sub-result named %q instead of nested", where, name)
	}
	if msg, ok := obj["resultMessage"].(string); !ok || msg == "" {
		return fmt.Sprintf("%s: resultMessage is %v", where, obj["resultMessage"])
	}
	if top {
		if sev, ok := obj["resultSeverity"].(string); !ok || !strings.HasPrefix(sev, "http://www.w3.org/ns/shacl#") {
			return fmt.Sprintf("%s: resultSeverity is %v", where, obj["resultSeverity"])
		}
	}
	if _, ok := obj["location"]; ok {
		st.locations++
	}
	tr, ok := obj["trace"].([]any)
	if !ok || len(tr) == 0 {
		return fmt.Sprintf("%s: trace is %v, not a non-empty list", where, obj["trace"])
	}
	if len(tr) > st.maxTraces {
		st.maxTraces = len(tr)
	}
	for i, t := range tr {
		tm, ok := t.(map[string]any)
		if !ok {
			return fmt.Sprintf("%s: trace %d is not an object", where, i)
		}
		if c, ok := tm["component"].(string); !ok || c == "" {
			return fmt.Sprintf("%s: trace %d has component %v", where, i, tm["component"])
		}
		if p, ok := tm["resultPath"].(string); !ok || p == "" {
			return fmt.Sprintf("%s: trace %d has resultPath %v", where, i, tm["resultPath"])
		}
		tv, ok := tm["traceValue"].(map[string]any)
		if !ok {
			return fmt.Sprintf("%s: trace %d has traceValue %v", where, i, tm["traceValue"])
		}
		if sr, has := tv["subResult"]; has {
			subs, ok := sr.([]any)
			if !ok {
				return fmt.Sprintf("%s: trace %d subResult is not a list", where, i)
			}
			if len(subs) > st.maxSubs {
				st.maxSubs = len(subs)
			}
			for k, s := range subs {
				sm, ok := s.(map[string]any)
				if !ok {
					return fmt.Sprintf("%s: trace %d subResult %d is not an object", where, i, k)
				}
				if msg := checkResult(sm, fmt.Sprintf("%s/trace%d/sub%d", where, i, k), false, shapes, nodeIDs, depth+1, st); msg != "" {
					return msg
				}
			}
		}
	}
	return ""
}

func decideC12(c c12Case) ev.Verdict {
	data := c.Maps.Attach(c.Graph).JSONLD(c.Opts)
	res := validateVia(c.Entry, c.ProfileText, data)
	if res.failed() {
		return ev.Violation("c12-call-failed:"+classifyErr(res), "validation failed: %s\n%s", trunc(res.errString(), 400), c.ProfileText)
	}
	if len(res.Report) > 1<<20 {
		// straight after a very large report, a validation of an empty document with the same profile: its report is
		// a report like any other (one JSON document)
		small := validateFixed(c.ProfileText, "[]")
		if small.failed() {
			return ev.Violation("c12-call-failed:"+classifyErr(small), "validating an empty document after a report of %d bytes failed: %s", len(res.Report), trunc(small.errString(), 400))
		}
		var sdoc any
		sdec := json.NewDecoder(strings.NewReader(small.Report))
		if err := sdec.Decode(&sdoc); err != nil || sdec.More() {
			return ev.Violation("c12-not-json", "the report of an empty document, validated straight after a report of %d bytes, is not one JSON document (%d bytes, error %v)", len(res.Report), len(small.Report), err)
		}
	}
	if c.Route != "" && os.Getenv("ACV_BIN") != "" {
		dir := scratchDir()
		pf, df, of := filepath.Join(dir, "c12p.yaml"), filepath.Join(dir, "c12d.jsonld"), filepath.Join(dir, "c12out.jsonld")
		_ = os.WriteFile(pf, []byte(c.ProfileText), 0o644)
		_ = os.WriteFile(df, []byte(data), 0o644)
		_ = os.Remove(of)
		args := []string{"validate", pf, df}
		switch c.Route {
		case "cli-file-longer": // what an earlier, longer run left there
			_ = os.WriteFile(of, []byte(res.Report+"\n"+res.Report+strings.Repeat("\n{\"earlier\": \"content\"}", 200)), 0o644)
		case "cli-file-shorter":
			_ = os.WriteFile(of, []byte("[{\"@id\": \"earlier\"}]"), 0o644)
		}
		if c.Route != "cli-stdout" {
			args = append(args, of)
		}
		so, se, exit, err := runACV(args...)
		if err != nil {
			return ev.Verdict{Discard: true, Detail: err.Error(), Obs: map[string]int{"helper_failures": 1}}
		}
		if exit != 0 {
			return ev.Violation("c12-cli-failed", "%s: acv validate exits %d on inputs the library validates: %s", c.Route, exit, trunc(se, 300))
		}
		if c.Route == "cli-stdout" {
			res.Report = so
		} else {
			b, rerr := os.ReadFile(of)
			if rerr != nil {
				return ev.Violation("c12-cli-no-file", "%s: no output file after exit 0: %v", c.Route, rerr)
			}
			res.Report = string(b)
		}
	}
	var doc any
	dec := json.NewDecoder(strings.NewReader(res.Report))
	dec.UseNumber()
	if err := dec.Decode(&doc); err != nil {
		return ev.Violation("c12-not-json", "%sreport is not JSON: %v", c.Route+" ", err)
	}
	if dec.More() {
		return ev.Violation("c12-not-json", "%strailing data after the report document", c.Route+" ")
	}
	arr, ok := doc.([]any)
	if !ok || len(arr) != 1 {
		return ev.Violation("c12-shape", "report is not an array holding exactly one object")
	}
	root, ok := arr[0].(map[string]any)
	if !ok || !containsStr(root["@type"], "meta:DialectInstance") {
		return ev.Violation("c12-shape", "the single element is not a meta:DialectInstance")
	}
	enc, ok := root["doc:encodes"].([]any)
	if !ok || len(enc) != 1 {
		return ev.Violation("c12-shape", "doc:encodes does not hold exactly one node")
	}
	node, ok := enc[0].(map[string]any)
	if !ok || !containsStr(node["@type"], "shacl:ValidationReport") {
		return ev.Violation("c12-shape", "the encoded node is not a shacl:ValidationReport")
	}
	ids := map[string]string{}
	if msg := collectIDs(doc, "", ids); msg != "" {
		sig := "c12-missing-id"
		if strings.Contains(msg, "used twice") {
			sig = "c12-duplicate-id"
		}
		return ev.Violation(sig, "%s\nprofile:\n%s", msg, c.ProfileText)
	}
	shapes := map[string]bool{}
	for _, s := range c.Shapes {
		shapes[s] = true
	}
	nodeIDs := map[string]bool{}
	for _, n := range c.Graph.Nodes {
		nodeIDs[n.ID] = true
	}
	for i := 0; i < c.Graph.Bulk; i++ {
		nodeIDs[fmt.Sprintf("%sfiller%d", m.NodeNS, i)] = true
	}
	var st c12Stats
	if rl, has := node["result"]; has {
		list, ok := rl.([]any)
		if !ok {
			return ev.Violation("c12-shape", "result is not a list")
		}
		for i, r := range list {
			rm, ok := r.(map[string]any)
			if !ok {
				return ev.Violation("c12-shape", "result %d is not an object", i)
			}
			st.results++
			if msg := checkResult(rm, fmt.Sprintf("result %d", i), true, shapes, nodeIDs, 1, &st); msg != "" {
				return ev.Violation("c12-incomplete-result", "%s\nprofile:\n%s", msg, c.ProfileText)
			}
		}
	}
	v := ev.Verdict{OK: true, Obs: map[string]int{"ids_checked": len(ids)}}
	if c.Route != "" && os.Getenv("ACV_BIN") != "" {
		v.Labels = append(v.Labels, "route:"+c.Route)
	}
	if c.Graph.Bulk > 0 {
		v.Labels = append(v.Labels, "bulk-nodes")
	}
	if len(res.Report) > 1<<20 {
		v.Labels = append(v.Labels, "report-over-1MiB")
	}
	v.Labels = append(v.Labels, fmt.Sprintf("max-traces:%d", minInt(st.maxTraces, 5)), fmt.Sprintf("subresult-depth:%d", minInt(st.maxDepth, 5)), fmt.Sprintf("max-subresults-per-trace:%d", minInt(st.maxSubs, 5)))
	if st.locations > 0 {
		v.Labels = append(v.Labels, "has-location-nodes")
	}
	v.NonTrivial = st.results >= 2 && (st.maxTraces >= 2 || st.maxDepth >= 3)
	return v
}

func minInt(a, b int) int {
	if a < b {
		return a
	}
	return b
}

func TestC12(t *testing.T) {
	ev.Run(t, "C12", genC12, decideC12)
}
