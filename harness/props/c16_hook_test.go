//go:build verif

package props

import (
	"strings"
	"testing"

	"github.com/aml-org/amf-custom-validator/pkg/verifhook"
	"pgregory.net/rapid"
	"verifharness/ev"
	m "verifharness/model"
)

// normalise the hook's S-expression: IRIs print as given.
func decideC16Hook(c c16Case) ev.Verdict {
	verdict, want := m.RefParsePath(c.Text)
	if verdict == m.Unspecified {
		return ev.Verdict{Discard: true, Detail: "status unspecified by the documented grammar"}
	}
	got, err := verifhook.PathStructure(c.Text)
	accepted := err == nil
	if accepted && verdict == m.Reject {
		return ev.Violation("c16-accepted-not-a-path", "%q is not a sentence of the path grammar but the parser accepts it as %s (origin: %s)", c.Text, got, c.Origin)
	}
	if !accepted && verdict == m.Accept {
		return ev.Violation("c16-rejected-valid-path", "%q is a sentence of the path grammar but the parser rejects it: %v", c.Text, err)
	}
	if accepted && got != want {
		return ev.Violation("c16-structure-differs", "%q parsed as %s, the grammar assigns %s", c.Text, got, want)
	}
	labels := []string{"via:hook"}
	if verdict == m.Accept {
		labels = append(labels, "ref:accept")
	} else {
		labels = append(labels, "ref:reject")
	}
	return ev.Verdict{OK: true, NonTrivial: verdict == m.Reject || strings.Count(c.Text, "/")+strings.Count(c.Text, "|")+strings.Count(c.Text, "^") >= 2, Labels: labels}
}

// TestC16HookFamily: every sentence with <= 3 leaves, every single-edit mutation of each.
func TestC16HookFamily(t *testing.T) {
	shards, idx := shardEnv()
	seen := map[string]bool{}
	var cases []c16Case
	n := 0
	for _, s := range sentences(3) {
		for _, e := range append([]string{s}, singleEditsOver(s, allPathTokens(true))...) {
			if seen[e] {
				continue
			}
			seen[e] = true
			n++
			if n%shards == idx {
				cases = append(cases, c16Case{Text: e, Via: "hook", Origin: s})
			}
		}
	}
	ev.RunFixed(t, "C16", cases, decideC16Hook)
}

// TestC16Variants: whitespace / redundant-parenthesis variants of one AST give one structure.
func TestC16Variants(t *testing.T) {
	ev.Run(t, "C16", func(t *rapid.T) c16Case {
		pg := &pgen{t: t, leaves: 8}
		p := pg.path(0)
		a := p.Print(pathStyle(t))
		b := p.Print(pathStyle(t))
		return c16Case{Text: a, Origin: b, Via: "hook-variants"}
	}, func(c c16Case) ev.Verdict {
		va, _ := m.RefParsePath(c.Text)
		vb, _ := m.RefParsePath(c.Origin)
		if va != m.Accept || vb != m.Accept {
			return ev.Verdict{Discard: true}
		}
		sa, ea := verifhook.PathStructure(c.Text)
		sb, eb := verifhook.PathStructure(c.Origin)
		if ea != nil || eb != nil {
			return ev.Violation("c16-rejected-valid-path", "variants %q / %q: %v %v", c.Text, c.Origin, ea, eb)
		}
		if sa != sb {
			return ev.Violation("c16-structure-depends-on-spelling", "two spellings of one path parse differently:\n%q -> %s\n%q -> %s", c.Text, sa, c.Origin, sb)
		}
		return ev.Verdict{OK: true, NonTrivial: c.Text != c.Origin, Labels: []string{"via:hook-variants"}}
	})
}

func TestC16HookRandom(t *testing.T) {
	ev.Run(t, "C16", func(t *rapid.T) c16Case {
		c := genC16Over(t, allPathTokens(true))
		c.Via = "hook"
		if c.Text == "" {
			c.Text = "ex.a"
		}
		return c
	}, decideC16Hook)
}
