package props

import (
	"fmt"
	"os"
	"strings"
	"sync"
	"sync/atomic"
	"testing"
	"time"

	"github.com/aml-org/amf-custom-validator/pkg"
	"github.com/aml-org/amf-custom-validator/pkg/config"
	e "github.com/aml-org/amf-custom-validator/pkg/events"
	"github.com/open-policy-agent/opa/rego"
	"verifharness/ev"
	m "verifharness/model"
)

type c08Case struct {
	Builtin  string `json:"builtin"`
	Call     string `json:"call"`
	Position string `json:"position"`
	Syntax   string `json:"syntax"`
	Debug    bool   `json:"debug"` // the `debug` argument of the entry points
}

// the five built-ins the property names, with a call that type-checks
var deniedCalls = map[string]string{
	"http.send":          `http.send({"method": "get", "url": "http://127.0.0.1:9/"})`,
	"net.lookup_ip_addr": `net.lookup_ip_addr("localhost")`,
	"opa.runtime":        `opa.runtime()`,
	"rego.parse_module":  `rego.parse_module("a.rego", "package a")`,
	"walk":               `walk({"a": 1})`,
}

var deniedOrder = []string{"http.send", "net.lookup_ip_addr", "opa.runtime", "rego.parse_module", "walk"}

var c08Syntaxes = []string{"statement", "unify", "assign", "array-comprehension", "set-comprehension", "object-comprehension", "not", "every", "argument", "after-result", "with-replacement", "with-replacement-in-comprehension"}

// withHosts: for the `with <function> as <built-in>` form the denied built-in is never written as a call; it is
// substituted for a harmless function of the same arity (the engine's function mocking)
var withHosts = map[string][2]string{ // built-in -> (host function, a call of the host)
	"http.send":          {"object.keys", `object.keys({"a": 1})`},
	"net.lookup_ip_addr": {"upper", `upper("h")`},
	"opa.runtime":        {"time.now_ns", `time.now_ns()`},
	"rego.parse_module":  {"trim", `trim("a", "b")`},
	"walk":               {"upper", `upper("h")`},
	"count":              {"upper", `upper("h")`},
}

func c08Code(call, syntax string) string {
	switch syntax {
	case "statement":
		return call + "\n$result = true"
	case "unify":
		return "tmpv = " + call + "\n$result = true"
	case "assign":
		return "tmpv := " + call + "\n$result = true"
	case "array-comprehension":
		return "tmpv := [yy | yy := " + call + "]\n$result = true"
	case "set-comprehension":
		return "tmpv := {yy | yy := " + call + "}\n$result = true"
	case "object-comprehension":
		return "tmpv := {\"k\": yy | yy := " + call + "}\n$result = true"
	case "not":
		return "not " + call + "\n$result = true"
	case "every":
		return "every zz in [1] { zz == 1; " + call + " }\n$result = true"
	case "argument":
		return "$result = (count([" + call + "]) > 0)"
	case "after-result":
		return "$result = true\ntmpv := " + call
	case "with-replacement", "with-replacement-in-comprehension":
		name := call
		if k := strings.Index(call, "("); k > 0 {
			name = call[:k]
		}
		host, ok := withHosts[name]
		if !ok {
			host = withHosts["count"]
		}
		if syntax == "with-replacement" {
			return "tmpv := " + host[1] + " with " + host[0] + " as " + name + "\n$result = true"
		}
		return "tmpv := [yy | yy := " + host[1] + " with " + host[0] + " as " + name + "]\n$result = true"
	}
	return call
}

var c08Positions = []string{"top-rego", "top-regoModule", "top-code-message", "extension-helper-function", "extension-unused-rule", "constraint-rego", "constraint-regoModule", "constraint-code-message",
	"nested", "atLeast", "atMost", "and", "or", "not", "if", "then", "else"}

func c08Profile(position, call, syntax string) string {
	code := c08Code(call, syntax)
	y := m.YMap()
	y.Set("profile", m.YStr("c08"))
	y.Set("prefixes", m.YMap().Set("ex", m.YStr(m.NS)))
	y.Set("violation", m.YSeq(m.YStr("v")))
	v := m.YMap()
	v.Set("targetClass", m.YStr("ex.Test"))
	plain := func() *m.Y {
		return m.YMap().Set("propertyConstraints", m.YMap().Set("ex.p0", m.YMap().Set("minCount", m.YInt(1))))
	}
	regoMap := func() *m.Y { return m.YMap().Set("rego", m.YStr(code)) }
	switch position {
	case "top-rego":
		v.Set("rego", m.YStr(code))
	case "top-regoModule":
		v.Set("regoModule", m.YStr(code))
	case "top-code-message":
		v.Set("rego", m.YMap().Set("code", m.YStr(code)).Set("message", m.YStr("custom")))
	case "extension-helper-function":
		fnBody := strings.ReplaceAll(code, "$result = true", "out = true")
		fnBody = strings.ReplaceAll(fnBody, "$result = (", "out = (")
		y.Set("rego_extensions", m.YStr("helper_fn(xx) = out {\n  "+strings.ReplaceAll(fnBody, "\n", "\n  ")+"\n}\n"))
		v.Set("rego", m.YStr("$result = helper_fn(1)"))
	case "extension-unused-rule":
		fnBody := strings.ReplaceAll(code, "$result = true", "true")
		fnBody = strings.ReplaceAll(fnBody, "$result = (", "true == (")
		y.Set("rego_extensions", m.YStr("never_used_rule {\n  "+strings.ReplaceAll(fnBody, "\n", "\n  ")+"\n}\n"))
		v.Set("propertyConstraints", plain().Get("propertyConstraints"))
	case "constraint-rego":
		v.Set("propertyConstraints", m.YMap().Set("ex.p0", m.YMap().Set("rego", m.YStr(code))))
	case "constraint-regoModule":
		v.Set("propertyConstraints", m.YMap().Set("ex.p0", m.YMap().Set("regoModule", m.YStr(code))))
	case "constraint-code-message":
		v.Set("propertyConstraints", m.YMap().Set("ex.p0", m.YMap().Set("rego", m.YMap().Set("code", m.YStr(code)).Set("message", m.YStr("custom")))))
	case "nested":
		v.Set("propertyConstraints", m.YMap().Set("ex.e0", m.YMap().Set("nested", regoMap())))
	case "atLeast", "atMost":
		v.Set("propertyConstraints", m.YMap().Set("ex.e0", m.YMap().Set(position, m.YMap().Set("count", m.YInt(1)).Set("validation", regoMap()))))
	case "and", "or":
		v.Set(position, m.YSeq(plain(), regoMap()))
	case "not":
		v.Set("not", regoMap())
	case "if":
		v.Set("if", regoMap())
		v.Set("then", plain())
	case "then":
		v.Set("if", plain())
		v.Set("then", regoMap())
	case "else":
		v.Set("if", plain())
		v.Set("then", plain())
		v.Set("else", regoMap())
	}
	y.Set("validations", m.YMap().Set("v", v))
	return y.Print(m.YOpts{})
}

const c08Data = `[{"@id":"http://ex.org/n/n0","@type":["http://ex.org/v#Test"],"http://ex.org/v#e0":[{"@id":"http://ex.org/n/n1"}],"http://ex.org/v#p0":[{"@value":"a"}]},{"@id":"http://ex.org/n/n1","@type":["http://ex.org/v#Other"],"http://ex.org/v#p0":[{"@value":"b"}]}]`

func decideC08(c c08Case) ev.Verdict {
	profile := c08Profile(c.Position, c.Call, c.Syntax)
	control := c08Profile(c.Position, "count([1])", c.Syntax)
	compileProfile := func(text string) (*rego.PreparedEvalQuery, call) { return compileProfileDebug(text, c.Debug) }
	if _, cc := compileProfile(control); cc.failed() {
		// the embedding itself is broken: the rejection below would prove nothing
		return ev.Verdict{Discard: true, Detail: fmt.Sprintf("control profile (%s, %s) does not compile: %s", c.Position, c.Syntax, trunc(cc.errString(), 300)), Obs: map[string]int{"vacuous_embeddings": 1}}
	}
	q, cc := compileProfile(profile)
	if cc.Panic != "" {
		return ev.Violation("c08-panic", "panic: %s", cc.Panic)
	}
	if cc.Err == nil && q != nil {
		return ev.Violation("c08-accepted:"+c.Builtin, "a profile calling %s (position %s, syntax %s) was accepted by CompileProfile\n%s", c.Builtin, c.Position, c.Syntax, profile)
	}
	msg := cc.Err.Error()
	if !(strings.Contains(msg, "unsafe built-in") || strings.Contains(msg, "must not be unsafe")) || !strings.Contains(msg, c.Builtin) {
		return ev.Verdict{Discard: true, Detail: fmt.Sprintf("rejected for another reason (%s, %s, %s): %s", c.Builtin, c.Position, c.Syntax, trunc(msg, 300)), Obs: map[string]int{"rejected_for_other_reason": 1}}
	}
	// Validate must fail too, and nothing may be evaluated
	ch := make(chan e.Event, 64)
	res := guard(func() (string, error) { return pkg.Validate(profile, c08Data, c.Debug, &ch) })
	if res.Panic != "" {
		return ev.Violation("c08-panic", "Validate panicked: %s", res.Panic)
	}
	if res.Err == nil || res.Report != "" {
		return ev.Violation("c08-validated:"+c.Builtin, "Validate returned a report for a profile calling %s (%s, %s)", c.Builtin, c.Position, c.Syntax)
	}
	for {
		x, ok := <-ch
		if !ok {
			break
		}
		if x.EventType == e.OpaValidationStart || x.EventType == e.InputDataParsingStart {
			return ev.Violation("c08-evaluated:"+c.Builtin, "pipeline went on to stage %d although the profile calls %s", x.EventType, c.Builtin)
		}
	}
	// the same through the configurable entry point, under report configurations that differ from the default
	for _, rc := range []config.ReportConfiguration{
		{IncludeReportCreationTime: false, ReportSchemaIri: config.DefaultReportConfiguration().ReportSchemaIri, LexicalSchemaIri: config.DefaultReportConfiguration().LexicalSchemaIri},
		{IncludeReportCreationTime: true, ReportSchemaIri: "file:///other/report.yaml", LexicalSchemaIri: "file:///other/lexical.yaml"},
		{},
	} {
		rc := rc
		r := guard(func() (string, error) { return pkg.ValidateWithConfiguration(profile, c08Data, c.Debug, nil, clock0, rc) })
		if r.Panic != "" {
			return ev.Violation("c08-panic", "ValidateWithConfiguration panicked: %s", r.Panic)
		}
		if r.Err == nil || r.Report != "" {
			return ev.Violation("c08-validated:"+c.Builtin, "ValidateWithConfiguration (configuration %+v) returned a report for a profile calling %s (%s, %s)", rc, c.Builtin, c.Position, c.Syntax)
		}
	}
	return ev.Verdict{OK: true, NonTrivial: true, Labels: []string{"builtin:" + c.Builtin, "position:" + c.Position, "syntax:" + c.Syntax, fmt.Sprintf("debug:%v", c.Debug)}}
}

// TestC08Denied: the five named built-ins x every position x every syntax, exhaustively.
func TestC08Denied(t *testing.T) {
	shards, idx := shardEnv()
	var cases []c08Case
	n := 0
	for _, b := range deniedOrder {
		for _, p := range c08Positions {
			for _, s := range c08Syntaxes {
				for _, dbg := range []bool{false, true} {
					n++
					if n%shards == idx {
						cases = append(cases, c08Case{Builtin: b, Call: deniedCalls[b], Position: p, Syntax: s, Debug: dbg})
					}
				}
			}
		}
	}
	ev.RunFixed(t, "C08", cases, decideC08)
}

// TestC08Concurrent: the same denied profile text submitted by several goroutines a few milliseconds apart (a text
// the process has never seen: a run-unique comment is appended). Whatever a first submission leaves behind while it
// is still being compiled, every submission is rejected.
type c08ConcCase struct {
	Builtin  string `json:"builtin"`
	Position string `json:"position"`
	Syntax   string `json:"syntax"`
	Entry    string `json:"entry"` // CompileProfile | Validate
}

var c08Nonce int64

func decideC08Concurrent(c c08ConcCase) ev.Verdict {
	reps := 1
	if os.Getenv("VERIF_REPLAY") != "" {
		reps = 20
	}
	for rep := 0; rep < reps; rep++ {
		profile := c08Profile(c.Position, deniedCalls[c.Builtin], c.Syntax) + fmt.Sprintf("# submission %d-%d\n", os.Getpid(), atomic.AddInt64(&c08Nonce, 1))
		const n = 10
		outs := make([]call, n)
		var wg sync.WaitGroup
		for i := 0; i < n; i++ {
			wg.Add(1)
			go func(i int) {
				defer wg.Done()
				time.Sleep(time.Duration(i*i) * 300 * time.Microsecond) // 0 ... 24 ms: shapes the schedule, decides nothing
				if c.Entry == "Validate" {
					outs[i] = guard(func() (string, error) { return pkg.Validate(profile, c08Data, false, nil) })
				} else {
					_, outs[i] = compileProfile(profile)
				}
			}(i)
		}
		wg.Wait()
		for i, r := range outs {
			if r.Panic != "" {
				return ev.Violation("c08-panic", "submission %d panicked: %s", i, r.Panic)
			}
			if r.Err == nil {
				return ev.Violation("c08-accepted-concurrently:"+c.Builtin, "submission %d of %d concurrent %s calls with one profile calling %s (%s, %s) was accepted", i, n, c.Entry, c.Builtin, c.Position, c.Syntax)
			}
		}
	}
	return ev.Verdict{OK: true, NonTrivial: true, Labels: []string{"concurrent:" + c.Builtin, "concurrent-entry:" + c.Entry}}
}

func TestC08Concurrent(t *testing.T) {
	shards, idx := shardEnv()
	var cases []c08ConcCase
	n := 0
	for _, b := range deniedOrder {
		for _, p := range []string{"top-rego", "extension-helper-function", "nested", "else"} {
			for _, s := range []string{"statement", "with-replacement"} {
				for _, e := range []string{"CompileProfile", "Validate"} {
					n++
					if n%shards == idx {
						cases = append(cases, c08ConcCase{Builtin: b, Position: p, Syntax: s, Entry: e})
					}
				}
			}
		}
	}
	ev.RunFixed(t, "C08", cases, decideC08Concurrent)
}

// TestC08Heavy: the denied call sits in a profile with hundreds of validations (whatever the translator or the
// engine does differently for big modules, the deny list applies to them too).
func TestC08Heavy(t *testing.T) {
	shards, idx := shardEnv()
	var cases []c08Case
	n := 0
	for _, b := range deniedOrder {
		for _, p := range []string{"top-rego", "nested", "extension-helper-function"} {
			n++
			if n%shards == idx {
				cases = append(cases, c08Case{Builtin: b, Call: deniedCalls[b], Position: p, Syntax: "statement"})
			}
		}
	}
	ev.RunFixed(t, "C08", cases, func(c c08Case) ev.Verdict {
		grow := func(text string) string {
			y, err := m.ParseY(text)
			if err != nil {
				return text
			}
			vals, lv := y.Get("validations"), y.Get("violation")
			for i := 0; i < 300; i++ {
				name := fmt.Sprintf("filler-%d", i)
				vals.Set(name, m.YMap().Set("targetClass", m.YStr("ex.Other")).Set("propertyConstraints", m.YMap().Set(fmt.Sprintf("ex.f%d", i%7), m.YMap().Set("minCount", m.YInt(int64(i%3))))))
				lv.Items = append(lv.Items, m.YStr(name))
			}
			return y.Print(m.YOpts{})
		}
		profile, control := grow(c08Profile(c.Position, c.Call, c.Syntax)), grow(c08Profile(c.Position, "count([1])", c.Syntax))
		if _, cc := compileProfile(control); cc.failed() {
			return ev.Verdict{Discard: true, Detail: "heavy control profile does not compile: " + trunc(cc.errString(), 300), Obs: map[string]int{"vacuous_embeddings": 1}}
		}
		q, cc := compileProfile(profile)
		if cc.Panic != "" {
			return ev.Violation("c08-panic", "panic: %s", cc.Panic)
		}
		if cc.Err == nil && q != nil {
			return ev.Violation("c08-accepted:"+c.Builtin, "a profile of 301 validations, one of which calls %s (position %s), was accepted by CompileProfile", c.Builtin, c.Position)
		}
		return ev.Verdict{OK: true, NonTrivial: true, Labels: []string{"heavy-profile:" + c.Builtin}}
	})
}
