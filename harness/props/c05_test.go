package props

import (
	"encoding/json"
	"fmt"
	"reflect"
	"strings"
	"testing"

	"github.com/piprate/json-gold/ld"
	"pgregory.net/rapid"
	"verifharness/ev"
	m "verifharness/model"
)

type c05Case struct {
	ProfileText string   `json:"profile_text"`
	Graph       *m.Graph `json:"graph"`
	A           m.LDOpts `json:"opts_a"`
	B           m.LDOpts `json:"opts_b"`
	CtxA        int      `json:"ctx_by_reference_a,omitempty"` // 0 inline; 1-3 the @context of serialisation A is moved to a file (see externaliseContext)
	CtxB        int      `json:"ctx_by_reference_b,omitempty"`
}

func genC05(t *rapid.T) c05Case {
	text, graphs, prof := genProfileAndGraphs(t, "c05", 1)
	g := graphs[0]
	// add a validation over a random path so that traversal code sees both serialisations
	if rapid.Bool().Draw(t, "withPath") {
		pg := &pgen{t: t, leaves: 4}
		p := pg.path(0)
		y := prof.ToY()
		vm := m.YMap()
		vm.Set("targetClass", m.YStr("ex.Test"))
		vm.Set("message", m.YStr("path check {{ex.p0}}"))
		c := m.YMap()
		switch rapid.IntRange(0, 2).Draw(t, "pathConstraint") {
		case 0:
			c.Set("minCount", m.YInt(int64(rapid.IntRange(1, 2).Draw(t, "minCount"))))
		case 1:
			c.Set("in", m.YSeq(m.YStr("a"), m.YInt(1)))
		default:
			c.Set("nested", m.YMap().Set("propertyConstraints", m.YMap().Set("ex.p0", m.YMap().Set("minCount", m.YInt(1)))))
		}
		vm.Set("propertyConstraints", m.YMap().Set(p.Print(nil), c))
		y.Get("validations").Set("vpath", vm)
		lv := y.Get("violation")
		if lv == nil {
			lv = m.YSeq()
			y.Set("violation", lv)
		}
		lv.Items = append(lv.Items, m.YStr("vpath"))
		text = y.Print(m.YOpts{})
	}
	// typed literals (datatype IRI written in full or through a prefix) and a validation that looks at them
	if rapid.Bool().Draw(t, "typedLiterals") {
		pool := []m.Lit{m.Typed("5", m.XSD+"integer"), m.Typed("25", m.XSD+"integer"), m.Typed("true", m.XSD+"boolean"), m.Typed("2020-01-01", m.XSD+"date"), m.Typed("x", m.NS+"customType")}
		for _, n := range g.Nodes {
			for _, l := range subset(t, pool, 0, 2, "typed") {
				n.AddVal(m.NS+"typed", m.LV(l))
			}
		}
		vm := m.YMap()
		vm.Set("targetClass", m.YStr("ex.Test"))
		c := m.YMap()
		switch rapid.IntRange(0, 3).Draw(t, "typedConstraint") {
		case 0:
			c.Set("minInclusive", m.YInt(18))
		case 1:
			c.Set("in", m.YSeq(m.YInt(5), m.YStr("true")))
		case 2:
			c.Set("datatype", m.YStr("xsd.integer"))
		default:
			c.Set("maxCount", m.YInt(1))
		}
		vm.Set("propertyConstraints", m.YMap().Set("ex.typed", c))
		text = appendValidation(text, "vtyped", vm)
	}
	// node ids that are absolute IRIs of other schemes, among them schemes spelled like the validator's built-in
	// prefixes (data:, doc:, core:): an id is an IRI, not a compact IRI, unless the document's own context says so
	if rapid.Bool().Draw(t, "schemeIds") {
		schemes := []string{"data:image/png;base64,AAAA", "data:n", "doc:Root", "core:n", "meta:x/", "security:scheme#", "shacl:n", "urn:uuid:0000-", "mailto:a@ex.org?n=", "tag:ex.org,2020:n", "file:///a/b.json#/x/", "amf://id#"}
		for i, n := range g.Nodes {
			if rapid.IntRange(0, 2).Draw(t, "schemeId") == 0 {
				n.ID = fmt.Sprintf("%s%d", pick(t, schemes, "scheme"), i)
			}
		}
	}
	// a property with some sixty values, among them pairs that are spelled alike but are different values (the
	// string "7" and the number 7, "true" and true): one value more or less - a repeated value - is surface form
	if rapid.IntRange(0, 4).Draw(t, "manyValues") == 0 {
		distinct := rapid.SampledFrom([]int{62, 63, 63, 64, 65, 130}).Draw(t, "manyDistinct")
		vals := []m.Lit{m.I(7), m.S("7"), m.B(true), m.S("true")}
		if rapid.Bool().Draw(t, "twinsLast") {
			vals = nil
		}
		for i := 0; len(vals) < distinct-4; i++ {
			vals = append(vals, m.S(fmt.Sprintf("m%d", i)))
		}
		if len(vals) < distinct {
			vals = append(vals, m.S("7"), m.I(7), m.S("true"), m.B(true))
		}
		for _, n := range g.Nodes {
			if n.HasType(classTest) && rapid.Bool().Draw(t, "hasMany") {
				for _, l := range vals {
					n.AddVal(m.NS+"many", m.LV(l))
				}
			}
		}
		vm := m.YMap()
		vm.Set("targetClass", m.YStr("ex.Test"))
		c := m.YMap()
		switch rapid.IntRange(0, 3).Draw(t, "manyConstraint") {
		case 0:
			c.Set("maxCount", m.YInt(int64(distinct-1)))
		case 1:
			c.Set("minCount", m.YInt(int64(distinct)))
		case 2:
			c.Set("datatype", m.YStr("xsd.string"))
		default:
			c.Set("containsAll", m.YSeq(m.YInt(7), m.YStr("true"), m.YStr("m1")))
		}
		vm.Set("propertyConstraints", m.YMap().Set("ex.many", c))
		text = appendValidation(text, "vmany", vm)
	}
	// scale: hundreds of inert nodes around the real ones (listing size is a surface property too); nodes that can
	// never be focus nodes (no target class) may be blank nodes, whose labels are local to the document
	genScale(t, g, 8)
	if rapid.IntRange(0, 3).Draw(t, "blankNodes") == 0 {
		for i, n := range g.Nodes {
			if !n.HasType(classTest) && rapid.Bool().Draw(t, "blank") {
				n.ID = fmt.Sprintf("_:x%d", i)
			}
		}
	}
	c := c05Case{ProfileText: text, Graph: g, A: genLDOpts(t, len(g.Nodes)), B: genLDOpts(t, len(g.Nodes))}
	if rapid.IntRange(0, 3).Draw(t, "ctxByReference") == 0 {
		c.CtxA = rapid.IntRange(0, 3).Draw(t, "ctxA")
		c.CtxB = rapid.IntRange(0, 3).Draw(t, "ctxB")
	}
	return c
}

// canonicalNQuads canonicalises a JSON-LD document with URDNA2015 (json-gold, trusted).
func canonicalNQuads(doc string) (string, error) {
	var v any
	dec := json.NewDecoder(strings.NewReader(doc))
	dec.UseNumber()
	if err := dec.Decode(&v); err != nil {
		return "", err
	}
	proc := ld.NewJsonLdProcessor()
	opts := ld.NewJsonLdOptions("")
	opts.Format = "application/n-quads"
	opts.Algorithm = "URDNA2015"
	out, err := proc.Normalize(v, opts)
	if err != nil {
		return "", err
	}
	s, _ := out.(string)
	return s, nil
}

func optDiff(a, b m.LDOpts) []string {
	var d []string
	va, vb := reflect.ValueOf(a), reflect.ValueOf(b)
	for i := 0; i < va.NumField(); i++ {
		if !reflect.DeepEqual(va.Field(i).Interface(), vb.Field(i).Interface()) {
			d = append(d, va.Type().Field(i).Name)
		}
	}
	return d
}

func decideC05(c c05Case) ev.Verdict {
	da, db := c.Graph.JSONLD(c.A), c.Graph.JSONLD(c.B)
	if c.CtxA > 0 {
		if out, files, ok := externaliseContext(da, c.CtxA); ok {
			da = out
			writeCtxFiles(files)
		}
	}
	if c.CtxB > 0 {
		if out, files, ok := externaliseContext(db, c.CtxB); ok {
			db = out
			writeCtxFiles(files)
		}
	}
	na, ea := canonicalNQuads(da)
	nb, eb := canonicalNQuads(db)
	if ea != nil || eb != nil || na != nb {
		return ev.Verdict{Discard: true, Detail: fmt.Sprintf("serialisations are not the same RDF graph (%v %v)", ea, eb)}
	}
	ra, rb := validateFixed(c.ProfileText, da), validateFixed(c.ProfileText, db)
	if ra.Panic != "" || rb.Panic != "" {
		return ev.Violation("c05-panic", "panic: %s %s", ra.Panic, rb.Panic)
	}
	if (ra.Err != nil) != (rb.Err != nil) {
		return ev.Violation("c05-error-differs", "one serialisation is rejected, the other is not: %v / %v\nA: %s\nB: %s", ra.Err, rb.Err, trunc(da, 800), trunc(db, 800))
	}
	if ra.Err != nil {
		return ev.Violation("c05-call-failed:"+classifyErr(ra), "validation failed on a generated graph: %v\n%s", ra.Err, c.ProfileText)
	}
	pa, e1 := m.ParseReport(ra.Report)
	pb, e2 := m.ParseReport(rb.Report)
	if e1 != nil || e2 != nil {
		return ev.Violation("c05-bad-report", "%v %v", e1, e2)
	}
	diff := optDiff(c.A, c.B)
	if pa.Conforms != pb.Conforms || !m.EqualStrings(pa.Quads(), pb.Quads()) {
		return ev.Violation("c05-verdict-depends-on-serialisation", "two serialisations of one graph (differing in %v) give different results\nA conforms=%v %v\nB conforms=%v %v\nprofile:\n%s\nA: %s\nB: %s", diff, pa.Conforms, pa.Quads(), pb.Conforms, pb.Quads(), c.ProfileText, trunc(da, 1500), trunc(db, 1500))
	}
	labels := []string{fmt.Sprintf("dims-differing:%d", minInt(len(diff), 6))}
	if c.Graph.Bulk > 0 {
		labels = append(labels, fmt.Sprintf("bulk-nodes:%d", c.Graph.Bulk))
	}
	if strings.Contains(da, ctxDir()) || strings.Contains(db, ctxDir()) {
		labels = append(labels, "context-by-reference")
	}
	if len(da) > 65536 || len(db) > 65536 {
		labels = append(labels, "document-over-64KiB")
	}
	for _, d := range diff {
		labels = append(labels, "differs:"+d)
	}
	return ev.Verdict{OK: true, NonTrivial: len(diff) >= 2 && len(pa.Results) > 0, Labels: labels}
}

func TestC05(t *testing.T) {
	ev.Run(t, "C05", genC05, decideC05)
}

// appendValidation adds a violation-level validation to a profile text printed by the canonical printer
// (re-parsed with yaml.v3 into the ordered tree, extended, printed again).
func appendValidation(text, name string, v *m.Y) string {
	y, err := m.ParseY(text)
	if err != nil {
		return text
	}
	y.Get("validations").Set(name, v)
	lv := y.Get("violation")
	if lv == nil {
		lv = m.YSeq()
		y.Set("violation", lv)
	}
	lv.Items = append(lv.Items, m.YStr(name))
	return y.Print(m.YOpts{})
}
