package props

import (
	"fmt"
	"sync"

	"github.com/open-policy-agent/opa/rego"
)

// The canary: one fixed (profile, document) pair, validated again after every case of the history checks. What it
// yields must never change within a process, whatever the cases in between did: buffers, caches, pools and tables
// that outlive a call show here even when the case that poisoned them looked fine itself.
const canaryProfile = "profile: canary\nprefixes:\n  cn: http://ex.org/canary#\nviolation:\n- needs-name\nvalidations:\n  needs-name:\n    targetClass: cn.Thing\n    message: \"thing without a name: {{cn.label}}\"\n    propertyConstraints:\n      cn.name:\n        minCount: 1\n"
const canaryData = `[{"@id":"http://ex.org/canary/a","@type":["http://ex.org/canary#Thing"],"http://ex.org/canary#label":[{"@value":"a"}]},{"@id":"http://ex.org/canary/b","@type":["http://ex.org/canary#Thing"],"http://ex.org/canary#name":[{"@value":"named"}]}]`

var canary struct {
	mu       sync.Mutex
	handle   *rego.PreparedEvalQuery
	text     string // report of the text route, first time
	compiled string // report through the handle, first time
}

// canaryChanged validates the canary through both routes and compares with what the same calls gave the first time
// in this process (the first results must also be the expected verdict: one violation, on node a).
func canaryChanged() string {
	canary.mu.Lock()
	defer canary.mu.Unlock()
	if canary.handle == nil {
		q, cc := compileProfile(canaryProfile)
		if cc.failed() {
			return "the canary profile does not compile: " + cc.errString()
		}
		canary.handle = q
	}
	t := validateFixed(canaryProfile, canaryData)
	c := validateCompiledFixed(canary.handle, canaryData)
	if t.failed() || c.failed() {
		return fmt.Sprintf("the canary validation fails: %s / %s", t.errString(), c.errString())
	}
	if canary.text == "" {
		canary.text, canary.compiled = t.Report, c.Report
	}
	if t.Report != canary.text {
		return "the canary's report (profile text) differs from the one the same call gave earlier in this process\n" + firstDiff(canary.text, t.Report)
	}
	if c.Report != canary.compiled {
		return "the canary's report (compiled profile) differs from the one the same call gave earlier in this process\n" + firstDiff(canary.compiled, c.Report)
	}
	return ""
}
