package props

import (
	"fmt"
	"os"
	"path/filepath"
	"regexp"
	"runtime"
	"strings"
	"sync"
	"sync/atomic"
	"testing"

	"github.com/aml-org/amf-custom-validator/pkg"
	"github.com/open-policy-agent/opa/rego"
	"pgregory.net/rapid"
	"verifharness/ev"
	m "verifharness/model"
)

type c10Op struct {
	Kind    string `json:"kind"` // "Validate", "ValidateWithConfiguration", "CompileProfile", "ValidateCompiled", "ValidateCompiledWithConfiguration", "CompileThenValidate"
	Profile int    `json:"profile"`
	Doc     int    `json:"doc"`
	Yield   int    `json:"yield"` // runtime.Gosched() calls before the operation
	Cfg     int    `json:"cfg"`   // report configuration used by the *WithConfiguration operations (index into Configs)
}

type c10Case struct {
	Profiles   []string  `json:"profiles"`
	Docs       []string  `json:"docs"`
	Goroutines [][]c10Op `json:"goroutines"`
	MaxProcs   int       `json:"gomaxprocs"`
	Configs    []repCfg  `json:"configs"`
	// ColdFirst: the concurrent phase runs before the serial baseline, on profile texts this process has never seen
	// (a run-unique comment is appended; the shared handles are compiled from yet another spelling), so that
	// whatever a first compilation of a text initialises is initialised under concurrency
	ColdFirst bool `json:"cold_first,omitempty"`
}

var c10Nonce int64

var c10Kinds = []string{"Validate", "ValidateWithConfiguration", "CompileProfile", "ValidateCompiled", "ValidateCompiledWithConfiguration", "CompileThenValidate"}

// heavyProfile: many validations, each an `or` of several alternatives - hundreds of generated rule bodies. Whatever
// the translator meters while it expands them (a budget, a counter, a table) belongs to one compilation.
func heavyProfile(nv, ops int) string {
	var sb strings.Builder
	sb.WriteString("profile: heavy\nprefixes:\n  ex: \"http://ex.org/v#\"\nviolation:\n")
	for i := 0; i < nv; i++ {
		fmt.Fprintf(&sb, "- v%d\n", i)
	}
	sb.WriteString("validations:\n")
	for i := 0; i < nv; i++ {
		fmt.Fprintf(&sb, "  v%d:\n    targetClass: ex.Test\n    or:\n", i)
		for k := 0; k < ops; k++ {
			fmt.Fprintf(&sb, "    - propertyConstraints:\n        ex.p%d:\n          minCount: %d\n", k, 1+(i%3))
		}
	}
	return sb.String()
}

func genC10Heavy(t *rapid.T) c10Case {
	var c c10Case
	c.Profiles = []string{heavyProfile(rapid.SampledFrom([]int{30, 36, 45}).Draw(t, "heavyValidations"), 6)}
	g := &m.Graph{}
	n := g.Add(classTest)
	g.Nodes[n].AddVal(m.NS+"p0", m.LV(m.S("a")))
	c.Docs = []string{g.JSONLD(m.LDOpts{}), "[]"}
	for i := 0; i < 3; i++ {
		cfg := genRepCfg(t, fmt.Sprintf("cfg%d", i))
		c.Configs = append(c.Configs, cfg)
	}
	c.ColdFirst = rapid.Bool().Draw(t, "coldFirst")
	c.MaxProcs = 16
	for g := 0; g < 4; g++ {
		c.Goroutines = append(c.Goroutines, []c10Op{{Kind: pick(t, []string{"CompileProfile", "Validate", "CompileThenValidate"}, "kind"), Profile: 0, Doc: rapid.IntRange(0, 1).Draw(t, "d")}})
	}
	return c
}

// genC10Burst: some hundred goroutines that all validate from profile text at the same moment (a service taking a
// burst of requests). Every call returns, and returns what it returns alone.
func genC10Burst(t *rapid.T) c10Case {
	var c c10Case
	text, graphs, _ := genProfileAndGraphs(t, "c10-burst", 1)
	c.Profiles = []string{text}
	c.Docs = []string{graphs[0].JSONLD(m.LDOpts{}), "[]"}
	for i := 0; i < 3; i++ {
		c.Configs = append(c.Configs, genRepCfg(t, fmt.Sprintf("cfg%d", i)))
	}
	c.MaxProcs = 16
	n := rapid.SampledFrom([]int{70, 96, 130}).Draw(t, "burst")
	for g := 0; g < n; g++ {
		c.Goroutines = append(c.Goroutines, []c10Op{{Kind: pick(t, []string{"Validate", "Validate", "ValidateWithConfiguration"}, "kind"), Profile: 0, Doc: g % 2, Cfg: g % 3}})
	}
	return c
}

func genC10(t *rapid.T) c10Case {
	switch rapid.IntRange(0, 15).Draw(t, "special") {
	case 0:
		return genC10Heavy(t)
	case 1:
		return genC10Burst(t)
	}
	var c c10Case
	np := rapid.IntRange(1, 3).Draw(t, "profiles")
	// different profiles may carry the same name (and always share validation names): nothing may be keyed by it
	sameName := rapid.Bool().Draw(t, "sameName")
	for i := 0; i < np; i++ {
		name := fmt.Sprintf("c10-%d", i)
		if sameName {
			name = "c10"
		}
		text, graphs, _ := genProfileAndGraphs(t, name, rapid.IntRange(1, 2).Draw(t, "graphs"))
		// profiles of one schedule may bind the same prefix to different namespaces (and declare a prefix another
		// profile uses undeclared): per-compilation state must not leak between concurrent compilations
		ns := m.NS
		if rapid.Bool().Draw(t, "otherNamespace") {
			ns = fmt.Sprintf("http://ex.org/other%d#", i)
			text = strings.ReplaceAll(text, m.NS, ns)
		}
		if rapid.IntRange(0, 2).Draw(t, "declareZZ") == 0 {
			text = strings.Replace(text, "prefixes:\n", "prefixes:\n  zz: \""+ns+"\"\n", 1)
		}
		c.Profiles = append(c.Profiles, text)
		for gi, g := range graphs {
			genScale(t, g, 16)
			doc := g.JSONLD(genLDOpts(t, len(g.Nodes)))
			if rapid.Bool().Draw(t, "lexical") {
				// source maps with additional locations, file names unique per document
				sm := genSourceMaps(t, g)
				sm.Root = fmt.Sprintf("file:///root-%d-%d.raml", i, gi)
				if len(sm.Files) == 0 {
					sm.Files = append(sm.Files, m.FileLoc{Nodes: []int{0}})
				}
				for fi := range sm.Files {
					sm.Files[fi].Location = fmt.Sprintf("file:///lib-%d-%d-%d.raml", i, gi, fi)
				}
				doc = sm.Attach(g).JSONLD(genLDOpts(t, 0))
			}
			c.Docs = append(c.Docs, strings.ReplaceAll(doc, m.NS, ns))
		}
	}
	if rapid.Bool().Draw(t, "badDoc") {
		c.Docs = append(c.Docs, pick(t, []string{"{\"@id\":", `[{"@id":5}]`,
			// documents the indexer stumbles over (an internal failure turned into an error): the error is a return value too
			`[{"@id":"http://x/si","@type":"http://a.ml/vocabularies/document#BaseUnitSourceInformation"}]`,
			`[{"@id":"http://x/sm","@type":"http://a.ml/vocabularies/document-source-maps#SourceMap","http://a.ml/vocabularies/document-source-maps#lexical":[{"@id":"http://x/l"}]},{"@id":"http://x/l","http://a.ml/vocabularies/document-source-maps#element":5}]`}, "badDocText"))
	}
	if rapid.IntRange(0, 3).Draw(t, "badProfile") == 0 {
		c.Profiles = append(c.Profiles, "profile: broken\nvalidations:\n  v:\n    targetClass: zz.T\n    propertyConstraints: {}\nviolation: [v]\n")
	}
	for i := 0; i < 3; i++ {
		cfg := genRepCfg(t, fmt.Sprintf("cfg%d", i))
		cfg.ReportIri = fmt.Sprintf("file:///schema-%d/report.yaml", i)
		cfg.LexIri = fmt.Sprintf("file:///schema-%d/lexical.yaml", i)
		c.Configs = append(c.Configs, cfg)
	}
	c.ColdFirst = rapid.Bool().Draw(t, "coldFirst")
	ng := rapid.IntRange(2, 8).Draw(t, "goroutines")
	c.MaxProcs = rapid.SampledFrom([]int{1, 2, 4, 16}).Draw(t, "gomaxprocs")
	for g := 0; g < ng; g++ {
		n := rapid.IntRange(1, 4).Draw(t, "opsPerGoroutine")
		var ops []c10Op
		for i := 0; i < n; i++ {
			ops = append(ops, c10Op{Kind: pick(t, c10Kinds, "kind"), Profile: rapid.IntRange(0, len(c.Profiles)-1).Draw(t, "p"), Doc: rapid.IntRange(0, len(c.Docs)-1).Draw(t, "d"), Yield: rapid.IntRange(0, 3).Draw(t, "yield"), Cfg: rapid.IntRange(0, 2).Draw(t, "cfg")})
		}
		c.Goroutines = append(c.Goroutines, ops)
	}
	return c
}

func (c *c10Case) cfg(op c10Op) repCfg {
	if len(c.Configs) == 0 {
		return repCfg{Include: true, ReportIri: "file:///dialects/validation-report.yaml", LexIri: "file:///dialects/lexical.yaml", Unix: 981173106}
	}
	return c.Configs[op.Cfg%len(c.Configs)]
}

type c10Result struct {
	err    bool
	errMsg string // the error's text with digit runs masked (generated names and line numbers carry counters)
	report string // canonical, date dropped
	panic  string
}

var digitRuns = regexp.MustCompile(`[0-9]+`)

func maskedErr(c call) string {
	if c.Err == nil {
		return ""
	}
	return digitRuns.ReplaceAllString(c.Err.Error(), "#")
}

func c10Run(op c10Op, c *c10Case, shared []*rego.PreparedEvalQuery) c10Result {
	var r call
	p, d := c.Profiles[op.Profile], c.Docs[op.Doc]
	switch op.Kind {
	case "Validate":
		r = guard(func() (string, error) { return pkg.Validate(p, d, false, nil) })
	case "ValidateWithConfiguration":
		r = validateCfg(p, d, c.cfg(op))
	case "CompileProfile":
		q, cc := compileProfile(p)
		if cc.failed() || q == nil {
			return c10Result{err: true, errMsg: maskedErr(cc), panic: cc.Panic}
		}
		return c10Result{}
	case "CompileThenValidate":
		q, cc := compileProfile(p)
		if cc.failed() || q == nil {
			return c10Result{err: true, errMsg: maskedErr(cc), panic: cc.Panic}
		}
		r = validateCompiledFixed(q, d)
	case "ValidateCompiled":
		if shared[op.Profile] == nil {
			return c10Result{err: true}
		}
		r = guard(func() (string, error) { return pkg.ValidateCompiled(shared[op.Profile], d, false, nil) })
	default:
		if shared[op.Profile] == nil {
			return c10Result{err: true}
		}
		cfg := c.cfg(op)
		r = guard(func() (string, error) {
			return pkg.ValidateCompiledWithConfiguration(shared[op.Profile], d, false, nil, cfg.clock(), cfg.report())
		})
	}
	if r.failed() {
		return c10Result{err: true, errMsg: maskedErr(r), panic: r.Panic}
	}
	if op.Kind == "Validate" || op.Kind == "ValidateCompiled" {
		return c10Result{report: dropDate(r.Report)} // these stamp time.Now()
	}
	return c10Result{report: r.Report}
}

var raceFrame = regexp.MustCompile(`(?m)^\s+(github\.com/aml-org/amf-custom-validator/[^\s(]+)`)

// raceReports reads (and removes) race detector logs written by this process.
func raceReports() (text string, sig string) {
	env := os.Getenv("GORACE")
	i := strings.Index(env, "log_path=")
	if i < 0 {
		return "", ""
	}
	prefix := strings.Fields(env[i+len("log_path="):])[0]
	files, _ := filepath.Glob(fmt.Sprintf("%s.%d", prefix, os.Getpid()))
	for _, f := range files {
		b, err := os.ReadFile(f)
		if err == nil && strings.Contains(string(b), "DATA RACE") {
			text += string(b)
			_ = os.Rename(f, f+".seen")
		}
	}
	if text == "" {
		return "", ""
	}
	frames := raceFrame.FindAllStringSubmatch(text, 4)
	var fs []string
	seen := map[string]bool{}
	for _, f := range frames {
		name := strings.TrimPrefix(f[1], "github.com/aml-org/amf-custom-validator/")
		if !seen[name] && len(fs) < 2 {
			seen[name] = true
			fs = append(fs, name)
		}
	}
	if len(fs) == 0 {
		return text, "race:outside-module"
	}
	return text, "race:" + strings.Join(fs, "+")
}

func decideC10(orig c10Case) ev.Verdict {
	rounds := 1
	if os.Getenv("VERIF_REPLAY") != "" {
		rounds = 50
	}
	old := runtime.GOMAXPROCS(orig.MaxProcs)
	defer runtime.GOMAXPROCS(old)
	for round := 0; round < rounds; round++ {
		c := orig
		handleTexts := orig.Profiles
		if orig.ColdFirst {
			nonce := atomic.AddInt64(&c10Nonce, 1)
			c.Profiles, handleTexts = nil, nil
			for _, p := range orig.Profiles {
				c.Profiles = append(c.Profiles, fmt.Sprintf("%s\n# run %d-%d\n", p, os.Getpid(), nonce))
				handleTexts = append(handleTexts, fmt.Sprintf("%s\n# handle %d-%d\n", p, os.Getpid(), nonce))
			}
		}
		shared := make([]*rego.PreparedEvalQuery, len(c.Profiles))
		for i, p := range handleTexts {
			q, cc := compileProfile(p)
			if cc.Panic != "" {
				return ev.Violation("c10-panic", "compile panicked: %s", cc.Panic)
			}
			if !cc.failed() {
				shared[i] = q
			}
		}
		// each operation alone
		serial := func() [][]c10Result {
			want := make([][]c10Result, len(c.Goroutines))
			for g, ops := range c.Goroutines {
				for _, op := range ops {
					want[g] = append(want[g], c10Run(op, &c, shared))
				}
			}
			return want
		}
		concurrent := func() [][]c10Result {
			got := make([][]c10Result, len(c.Goroutines))
			var wg sync.WaitGroup
			start := make(chan struct{})
			for g, ops := range c.Goroutines {
				wg.Add(1)
				go func(g int, ops []c10Op) {
					defer wg.Done()
					<-start
					for _, op := range ops {
						for y := 0; y < op.Yield; y++ {
							runtime.Gosched()
						}
						got[g] = append(got[g], c10Run(op, &c, shared))
					}
				}(g, ops)
			}
			close(start)
			wg.Wait()
			return got
		}
		var want, got [][]c10Result
		if !orig.ColdFirst {
			want = serial()
			if txt, sig := raceReports(); txt != "" {
				return ev.Violation(sig, "race reported during the SERIAL baseline (background goroutine?):\n%s", trunc(txt, 3000))
			}
		}
		var returned bool
		got, returned = returnsInTime("C10", concurrent)
		if !returned {
			ev.Abort("C10", "TestC10", orig, ev.Violation("c10-no-return", "%d goroutines released at once have not all returned after %d s (a control computation completes at once): %s", len(c.Goroutines), noReturnSecs(), trunc(describeOps(c), 600)))
		}
		if txt, sig := raceReports(); txt != "" {
			return ev.Violation(sig, "the race detector reported a data race while %d goroutines ran %s\n%s", len(c.Goroutines), describeOps(c), trunc(txt, 4000))
		}
		if orig.ColdFirst {
			want = serial()
		}
		for g := range got {
			for i := range got[g] {
				w, o := want[g][i], got[g][i]
				if o.panic != "" {
					return ev.Violation("c10-panic", "goroutine %d op %d %+v panicked under concurrency: %s", g, i, c.Goroutines[g][i], o.panic)
				}
				if w.err != o.err {
					return ev.Violation("c10-error-differs", "goroutine %d op %d %+v: error=%v alone, error=%v under concurrency (%s)", g, i, c.Goroutines[g][i], w.err, o.err, describeOps(c))
				}
				if w.errMsg != o.errMsg {
					return ev.Violation("c10-error-text-differs", "goroutine %d op %d %+v: the error returned under concurrency is not the one returned alone (%s)\nalone:      %s\nconcurrent: %s", g, i, c.Goroutines[g][i], describeOps(c), trunc(w.errMsg, 600), trunc(o.errMsg, 600))
				}
				if w.report != o.report {
					return ev.Violation("c10-report-differs", "goroutine %d op %d %+v: report differs from the one obtained alone (%s)\n%s", g, i, c.Goroutines[g][i], describeOps(c), firstDiff(w.report, o.report))
				}
			}
		}
	}
	c := orig
	compilers, sharers := 0, map[int]int{}
	for _, ops := range c.Goroutines {
		comp := false
		used := map[int]bool{}
		for _, op := range ops {
			switch op.Kind {
			case "Validate", "ValidateWithConfiguration", "CompileProfile", "CompileThenValidate":
				comp = true
			default:
				used[op.Profile] = true
			}
		}
		if comp {
			compilers++
		}
		for p := range used {
			sharers[p]++
		}
	}
	sharedUse := false
	for _, n := range sharers {
		if n >= 2 {
			sharedUse = true
		}
	}
	labels := []string{fmt.Sprintf("goroutines:%d", len(c.Goroutines)), fmt.Sprintf("gomaxprocs:%d", c.MaxProcs)}
	if c.ColdFirst {
		labels = append(labels, "concurrent-phase-first-on-unseen-texts")
	}
	if compilers >= 2 {
		labels = append(labels, "concurrent-compilations")
	}
	if sharedUse {
		labels = append(labels, "shared-compiled-profile")
	}
	return ev.Verdict{OK: true, NonTrivial: compilers >= 2 || sharedUse, Labels: labels}
}

func describeOps(c c10Case) string {
	var parts []string
	for g, ops := range c.Goroutines {
		var ks []string
		for _, op := range ops {
			ks = append(ks, fmt.Sprintf("%s(p%d,d%d)", op.Kind, op.Profile, op.Doc))
		}
		parts = append(parts, fmt.Sprintf("g%d:[%s]", g, strings.Join(ks, " ")))
	}
	return strings.Join(parts, " ")
}

func TestC10(t *testing.T) {
	ev.Run(t, "C10", genC10, decideC10)
}
