package props

import (
	"fmt"
	"strings"
	"testing"

	"pgregory.net/rapid"
	"verifharness/ev"
	m "verifharness/model"
)

type c07Case struct {
	ProfileText string `json:"profile_text"`
	Quantified  []int  `json:"quantified_per_validation"`
	Depth       int    `json:"depth"`
	PathOps     int    `json:"max_path_operators"`
	Family      string `json:"family"`
	Stripped    int    `json:"bodies_with_alternations_removed_for_cost,omitempty"`
}

// decoratePaths replaces some propertyConstraints keys by random path expressions and adds extra constraints.
func decoratePaths(t *rapid.T, f *m.F, maxOps *int) {
	for _, s := range f.Sub {
		decoratePaths(t, s, maxOps)
	}
	for i := range f.PC {
		e := &f.PC[i]
		for j := range e.Cs {
			if e.Cs[j].Body != nil {
				decoratePaths(t, e.Cs[j].Body, maxOps)
			}
		}
		if rapid.IntRange(0, 2).Draw(t, "usePath") == 0 {
			pg := &pgen{t: t, leaves: 5}
			p := pg.path(0)
			e.Key = p.Print(pathStyle(t))
			if v, _ := m.RefParsePath(e.Key); v != m.Accept {
				e.Key = p.Print(nil)
			}
			if p.Ops() > *maxOps {
				*maxOps = p.Ops()
			}
		}
		if rapid.IntRange(0, 5).Draw(t, "extra") == 0 {
			e.Extra = append(e.Extra, m.ExtraC{Kind: "uniqueValues", Arg: m.YBool(rapid.Bool().Draw(t, "uniq"))})
		}
	}
	// keys must stay unique inside one propertyConstraints map
	seen := map[string]bool{}
	for i := range f.PC {
		k := f.PC[i].Key
		if k == "" {
			k = "ex." + f.PC[i].Prop
		}
		if seen[k] {
			f.PC[i].Key = ""
			f.PC[i].Prop = fmt.Sprintf("%sdup%d", f.PC[i].Prop, i)
		}
		seen[k] = true
	}
}

// altProduct multiplies (1 + number of `|`) over all keys of the formula, capped.
func altProduct(f *m.F) int {
	n := 1
	mul := func(k int) {
		if n *= k; n > 1<<20 {
			n = 1 << 20
		}
	}
	for _, s := range f.Sub {
		mul(altProduct(s))
	}
	for _, e := range f.PC {
		mul(1 + strings.Count(e.Key, "|"))
		for _, c := range e.Cs {
			if c.Body != nil {
				mul(altProduct(c.Body))
			}
		}
	}
	return n
}

// stripAlternations puts the plain property back where a key holds a path with `|`, keeping keys unique.
func stripAlternations(f *m.F) {
	for _, s := range f.Sub {
		stripAlternations(s)
	}
	seen := map[string]bool{}
	for i := range f.PC {
		e := &f.PC[i]
		for _, c := range e.Cs {
			if c.Body != nil {
				stripAlternations(c.Body)
			}
		}
		if strings.Contains(e.Key, "|") {
			e.Key = ""
			e.Prop = fmt.Sprintf("%salt%d", e.Prop, i)
		}
		k := e.Key
		if k == "" {
			k = "ex." + e.Prop
		}
		if seen[k] {
			e.Key = ""
			e.Prop = fmt.Sprintf("%sdup%d", e.Prop, i)
		}
		seen[k] = true
	}
}

func countQuantified(f *m.F) int {
	n := 0
	for _, s := range f.Sub {
		n += countQuantified(s)
	}
	for _, e := range f.PC {
		for _, c := range e.Cs {
			if c.Body != nil {
				n += 1 + countQuantified(c.Body)
			}
		}
	}
	return n
}

// manyQuantified builds a validation body with n quantified constraints spread over connectives.
func manyQuantified(t *rapid.T, g *fgen, n int) *m.F {
	var leaves []*m.F
	for i := 0; i < n; i++ {
		kind := pick(t, []string{"nested", "nested", "atLeast", "atMost"}, "qkind")
		body := m.AtomF(g.atom())
		if rapid.IntRange(0, 4).Draw(t, "deepBody") == 0 {
			body = m.Quant("nested", fmt.Sprintf("k%dx", i), 0, m.AtomF(g.atom()))
			i++
		}
		leaves = append(leaves, m.Quant(kind, fmt.Sprintf("k%d", i), rapid.IntRange(0, 3).Draw(t, "qn"), body))
	}
	// group the leaves: one big propertyConstraints map, or and/or/not of maps
	switch rapid.IntRange(0, 3).Draw(t, "grouping") {
	case 0:
		f := &m.F{Op: "pc"}
		for _, l := range leaves {
			f.PC = append(f.PC, l.PC...)
		}
		return f
	case 1:
		return m.And(leaves...)
	case 2:
		if len(leaves) > 6 { // an or of many operands multiplies branches: keep it small, put the rest in one map
			rest := &m.F{Op: "pc"}
			for _, l := range leaves[3:] {
				rest.PC = append(rest.PC, l.PC...)
			}
			return m.And(m.Or(leaves[:3]...), rest)
		}
		return m.Or(leaves...)
	default:
		f := &m.F{Op: "pc"}
		for _, l := range leaves {
			f.PC = append(f.PC, l.PC...)
		}
		return m.Not(f)
	}
}

func genC07(t *rapid.T) c07Case {
	thorough := ev.Thorough()
	maxDepth := 5
	if thorough {
		maxDepth = 8
	}
	g := &fgen{t: t, maxAtoms: 8, maxDepth: rapid.IntRange(1, maxDepth).Draw(t, "depth"), maxWidth: 3, budget: 10, quant: true, edges: 3, allRows: true, constants: true}
	// the package name of the policy is derived from the profile name: a name the translator invents
	p := &m.Profile{Name: pick(t, []string{"c07", "Profile 7", "a-b_c", "9 lives", "Perfil de validación", "プロファイル", "--", "Ünïcode-Ærøå", "data", "input", "package", "default"}, "pname")}
	nv := rapid.IntRange(1, 8).Draw(t, "validations")
	classes := []string{"ex.Test", "ex.Other", "shapes.NodeShape", "apiContract.WebAPI", "core.Thing", "doc.Document"}
	c := c07Case{Family: "random"}
	total := 0
	for i := 0; i < nv; i++ {
		if total > 30 { // keep one profile's module within what compiles in well under a second
			break
		}
		g.budget = rapid.IntRange(2, 10).Draw(t, "budget")
		var body *m.F
		bucket := rapid.IntRange(0, 9).Draw(t, "bucket")
		switch {
		case bucket < 7:
			body = g.bounded(80)
		case bucket < 9:
			body = manyQuantified(t, g, rapid.IntRange(5, 15).Draw(t, "nq"))
		default:
			body = manyQuantified(t, g, rapid.IntRange(16, 40).Draw(t, "nq"))
		}
		decoratePaths(t, body, &c.PathOps)
		// the translator repeats a validation's rule bodies for every alternative of every path in it, and the engine's
		// conflict check is quadratic in the number of bodies: at nesting depth 6..8 (thorough tier only) the product
		// reaches 10^4 bodies and a compilation that does not return within minutes (DESIGN section 11). Such a case
		// can only end as a time-out, which decides nothing: alternations are taken out of the keys of that one body.
		if thorough {
			if est := body.Cost() * altProduct(body); est > 2000 || est < 0 {
				stripAlternations(body)
				c.Stripped++
			}
		}
		st := body.Stats()
		if st.Depth > c.Depth {
			c.Depth = st.Depth
		}
		c.Quantified = append(c.Quantified, countQuantified(body))
		total += countQuantified(body)
		p.Validations = append(p.Validations, m.Validation{Name: fmt.Sprintf("validation-%d", i), Level: pick(t, []string{"violation", "warning", "info"}, "level"), Class: pick(t, classes, "class"), Body: body,
			Message: pick(t, []string{"", "plain", "value {{ex.p0}}", "{{ex.p0}} and again {{ex.p0}}", "{{ex.p0}} {{ex.p1}} {{ ex.p0 }} {{ex.p-1}} {{ex.p_1}}",
				"{{ex.a}}{{ex.b}}{{ex.c}}{{ex.d}}{{ex.e}}{{ex.f}}{{ex.g}}{{ex.h}}{{ex.i}}{{ex.j}}{{ex.k}}{{ex.l}}", "{{shapes.name}} {{core.name}}"}, "msg")})
	}
	// level lists: a validation may be listed under a second level (also as that level's only entry), names may be
	// listed without a definition, a level may be an empty list
	if rapid.IntRange(0, 2).Draw(t, "levelGames") == 0 {
		p.Undefined = map[string][]string{}
		for _, v := range p.Validations {
			if rapid.IntRange(0, 2).Draw(t, "alsoListed") == 0 {
				other := pick(t, []string{"violation", "warning", "info"}, "otherLevel")
				if other != v.Level {
					p.Undefined[other] = append(p.Undefined[other], v.Name)
				}
			}
		}
		if rapid.IntRange(0, 3).Draw(t, "emptyLevel") == 0 {
			p.EmptyLevels = append(p.EmptyLevels, pick(t, []string{"violation", "warning", "info"}, "emptyLevelName"))
		}
		decorateLevelLists(t, p)
	}
	// numbers in any of the spellings YAML gives them (+5, 0x5, 0o5, .5, 5e-1, 5.e-1, 00.5 ...)
	c.ProfileText = p.ToY().Print(m.YOpts{NumStyle: rapid.SampledFrom([]int{0, 0, 1, 2, 3, 4, 5, 6, 7}).Draw(t, "numStyle")})
	return c
}

func decideC07(c c07Case) ev.Verdict {
	q, cc := compileProfile(c.ProfileText)
	if cc.Panic != "" {
		return ev.Violation("c07-panic@"+panicSite(cc.Stack), "CompileProfile panicked on a declarative profile: %s\n%s", trunc(cc.Panic, 300), c.ProfileText)
	}
	if cc.Err != nil || q == nil {
		return ev.Violation("c07-does-not-compile:"+classifyErr(cc), "a well-formed declarative profile does not compile: %s\nprofile:\n%s", trunc(cc.errString(), 600), c.ProfileText)
	}
	v := ev.Verdict{OK: true, Obs: map[string]int{}}
	// one evaluation, recorded as an observation only
	r := validateCompiledFixed(q, `[{"@id":"http://ex.org/n/n0","@type":["http://ex.org/v#Test"],"http://ex.org/v#e0":[{"@id":"http://ex.org/n/n0"}],"http://ex.org/v#p0":[{"@value":"a"}]}]`)
	if r.failed() {
		v.Obs["evaluation_errors_observed"] = 1
	}
	maxQ := 0
	for _, n := range c.Quantified {
		if n > maxQ {
			maxQ = n
		}
	}
	bucket := "1-4"
	switch {
	case maxQ == 0:
		bucket = "0"
	case maxQ >= 26:
		bucket = ">=26"
	case maxQ >= 12:
		bucket = "12-25"
	case maxQ >= 5:
		bucket = "5-11"
	}
	v.Labels = []string{"quantified-vars:" + bucket, fmt.Sprintf("depth:%d", minInt(c.Depth, 9)), fmt.Sprintf("validations:%d", len(c.Quantified)), fmt.Sprintf("path-operators:%d", minInt(c.PathOps, 6)), "family:" + c.Family}
	if c.Stripped > 0 {
		v.Labels = append(v.Labels, "alternations-removed-for-cost")
	}
	v.NonTrivial = maxQ >= 2 || c.Depth >= 3 || c.PathOps >= 2
	return v
}

func TestC07(t *testing.T) {
	ev.Run(t, "C07", genC07, decideC07)
}

// TestC07Sweep: k quantified constraints in one validation, for each kind, k = 1..K.
func TestC07Sweep(t *testing.T) {
	K := 30
	if ev.Thorough() {
		K = 60
	}
	var cases []c07Case
	for _, kind := range []string{"nested", "atLeast", "atMost"} {
		for k := 1; k <= K; k++ {
			for _, wrap := range []string{"map", "not", "and"} {
				f := &m.F{Op: "pc"}
				var leaves []*m.F
				for i := 0; i < k; i++ {
					a := &m.Atom{ID: i, Row: i % len(m.AtomTable), Prop: fmt.Sprintf("p%d", i)}
					if a.R().Class == "cmp" {
						a.Prop2 = fmt.Sprintf("q%d", i)
					}
					l := m.Quant(kind, fmt.Sprintf("k%d", i), i%3, m.AtomF(a))
					leaves = append(leaves, l)
					f.PC = append(f.PC, l.PC...)
				}
				body := f
				switch wrap {
				case "not":
					body = m.Not(f)
				case "and":
					body = m.And(leaves...)
				}
				p := &m.Profile{Name: "sweep", Validations: []m.Validation{{Name: "v", Level: "violation", Class: "ex.Test", Body: body}}}
				cases = append(cases, c07Case{ProfileText: p.ToY().Print(m.YOpts{}), Quantified: []int{k}, Depth: 2, Family: "sweep:" + kind + ":" + wrap})
			}
		}
	}
	shards, idx := shardEnv()
	var mine []c07Case
	for i, c := range cases {
		if i%shards == idx {
			mine = append(mine, c)
		}
	}
	ev.RunFixed(t, "C07", mine, decideC07)
}
