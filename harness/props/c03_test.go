package props

import (
	"github.com/aml-org/amf-custom-validator/pkg/events"
	"encoding/json"
	"fmt"
	"sort"
	"strings"
	"testing"
	"time"

	"github.com/aml-org/amf-custom-validator/pkg"
	"github.com/aml-org/amf-custom-validator/pkg/config"
	"pgregory.net/rapid"
	"verifharness/ev"
	m "verifharness/model"
)

type repCfg struct {
	Include   bool   `json:"include"`
	ReportIri string `json:"report_iri"`
	LexIri    string `json:"lexical_iri"`
	Unix      int64  `json:"unix"`
	ZoneMin   int    `json:"zone_min"`
	Listen    bool   `json:"listen,omitempty"` // the call is given an event channel
}

func (c repCfg) clock() fixedClock {
	if c.Unix == zeroInstant && c.ZoneMin == 0 {
		return fixedClock{time.Time{}} // the zero value of time.Time: a clock nobody set is still a configured time
	}
	return fixedClock{time.Unix(c.Unix, 0).In(time.FixedZone("", c.ZoneMin*60))}
}

// zeroInstant is 0001-01-01T00:00:00Z in Unix seconds
const zeroInstant = -62135596800

func (c repCfg) report() config.ReportConfiguration {
	return config.ReportConfiguration{IncludeReportCreationTime: c.Include, ReportSchemaIri: c.ReportIri, LexicalSchemaIri: c.LexIri}
}

func genRepCfg(t *rapid.T, label string) repCfg {
	iri := rapid.OneOf(
		rapid.Just("file:///dialects/validation-report.yaml"),
		rapid.StringMatching(`[a-z]{1,5}://[a-zA-Z0-9./_-]{0,12}`),
		rapid.StringN(0, 12, -1),
	)
	c := repCfg{
		Include:   rapid.Bool().Draw(t, label+"Include"),
		ReportIri: iri.Draw(t, label+"ReportIri"),
		LexIri:    iri.Draw(t, label+"LexIri"),
		Unix:      rapid.Int64Range(0, 253402300799).Draw(t, label+"Unix"),
		ZoneMin:   rapid.IntRange(-12*60, 14*60).Draw(t, label+"Zone"),
	}
	// boundary instants: the zero time (also as the zero value of time.Time), the epoch, one second either side
	if rapid.IntRange(0, 5).Draw(t, label+"BoundaryInstant") == 0 {
		c.Unix = rapid.SampledFrom([]int64{zeroInstant, zeroInstant, zeroInstant + 1, 0, -1, 1, 253402300799}).Draw(t, label+"Instant")
		if rapid.Bool().Draw(t, label+"UTC") {
			c.ZoneMin = 0
		}
	}
	c.Listen = rapid.IntRange(0, 2).Draw(t, label+"Listen") == 0
	return c
}

type c03Case struct {
	Listed      map[string][]string `json:"also_listed,omitempty"` // level -> validations defined elsewhere and listed here too
	Profile     m.Profile           `json:"profile"`
	Graph       *m.Graph            `json:"graph"`
	CfgA        repCfg              `json:"cfg_a"`
	CfgB        repCfg              `json:"cfg_b"`
	ProfileText string              `json:"profile_text"`
	DataText    string              `json:"data_text"`
	// Before, when set, is another profile validated in the same process just before: other name, every validation
	// moved to the next level, and - through a trailing comment on both texts - the same length and the same 32-bit
	// checksum (Checksum) as the subject. A cache keyed by such a fingerprint would answer with the wrong profile.
	Before   string `json:"before,omitempty"`
	Checksum string `json:"checksum,omitempty"`
	// Contributed: embedded Rego puts one more result straight into a level set (a check about the document as a
	// whole): level, the validation it is filed under, and whether the entry is the typed object the library's own
	// helper builds or a plain object with the four result members
	Contributed *c03Contributed `json:"contributed,omitempty"`
}

type c03Contributed struct {
	Level string `json:"level"`
	Name  string `json:"name"`
	Typed bool   `json:"typed"`
}

const c03DocumentID = "http://ex.org/document"

func (x *c03Contributed) rego() string {
	entry := `{"sourceShapeName": "` + x.Name + `", "focusNode": "` + c03DocumentID + `", "resultMessage": "about the document", "trace": []}`
	if x.Typed {
		entry = `error("` + x.Name + `", {"@id": "` + c03DocumentID + `"}, "about the document", [trace("documentCheck", "http://ex.org/v#none", {"@id": "` + c03DocumentID + `"}, {"negated": false})])`
	}
	return x.Level + "[matches] {\n  count(input) >= 0\n  matches := " + entry + "\n}\n"
}

func genC03(t *rapid.T) c03Case {
	g := &fgen{t: t, maxAtoms: 6, maxDepth: 1, maxWidth: 2, budget: 3}
	var c c03Case
	c.Profile.Name = rapid.SampledFrom([]string{"c03", "My Profile", "p-1", "  indented name", "trailing blank ", "\tTabbed\t", "ends with a line break\n", "42", "true", "Profile: with # specials", "ünïcode ✓"}).Draw(t, "pname")
	nv := rapid.IntRange(0, 6).Draw(t, "validations")
	levels := []string{"violation", "warning", "info", ""}
	for i := 0; i < nv; i++ {
		g.budget = 3
		var body *m.F
		if rapid.IntRange(0, 3).Draw(t, "small") == 0 {
			body = g.bounded(40)
		} else {
			body = m.AtomF(g.newAtom())
		}
		c.Profile.Validations = append(c.Profile.Validations, m.Validation{
			Name: fmt.Sprintf("val%d", i), Level: pick(t, levels, "level"), Class: "ex.Test", Body: body})
	}
	c.Profile.Undefined = map[string][]string{}
	for _, l := range levels[:3] {
		if rapid.IntRange(0, 4).Draw(t, "undef") == 0 {
			name := "ghost-" + l
			if nv > 0 && rapid.Bool().Draw(t, "nearMiss") {
				// a near miss of a defined name is still another name
				base := c.Profile.Validations[rapid.IntRange(0, nv-1).Draw(t, "nearMissOf")].Name
				name = pick(t, []string{strings.ToUpper(base), strings.Title(base), " " + base, base + " ", base + "_"}, "nearMissName")
			}
			c.Profile.Undefined[l] = append(c.Profile.Undefined[l], name)
		}
		if rapid.IntRange(0, 3).Draw(t, "emptyLevel") == 0 {
			c.Profile.EmptyLevels = append(c.Profile.EmptyLevels, l)
		}
	}
	// a defined validation may also be listed under a second level: it is then reported with both severities
	c.Listed = map[string][]string{}
	for _, v := range c.Profile.Validations {
		if v.Level != "" && rapid.IntRange(0, 5).Draw(t, "secondLevel") == 0 {
			other := pick(t, levels[:3], "otherLevel")
			if other != v.Level {
				c.Profile.Undefined[other] = append(c.Profile.Undefined[other], v.Name)
				c.Listed[other] = append(c.Listed[other], v.Name)
			}
		}
	}
	// names listed but not defined may stand anywhere in a level list
	c.Profile.ListOrder = map[string][]string{}
	for _, l := range levels[:3] {
		var names []string
		for _, v := range c.Profile.Validations {
			if v.Level == l {
				names = append(names, v.Name)
			}
		}
		names = append(names, c.Profile.Undefined[l]...)
		if len(names) > 1 {
			c.Profile.ListOrder[l] = rapid.Permutation(names).Draw(t, "listOrder")
		}
	}
	for _, v := range c.Profile.Validations {
		v.Body.MarkPolarity(m.Pos)
	}
	c.Graph = randomGraph(t, g.atoms, nil, 5)
	genScale(t, c.Graph, 16)
	c.CfgA = genRepCfg(t, "a")
	c.CfgB = genRepCfg(t, "b")
	c.ProfileText = c.Profile.ToY().Print(m.YOpts{})
	// a result contributed by embedded Rego, at a level that has a listed validation (an element rule needs the
	// level to be a set)
	var listed []m.Validation
	for _, v := range c.Profile.Validations {
		if v.Level != "" && !strings.ContainsAny(v.Name, "\"\\") {
			listed = append(listed, v)
		}
	}
	if len(listed) > 0 && rapid.IntRange(0, 4).Draw(t, "contributed") == 0 {
		v := listed[rapid.IntRange(0, len(listed)-1).Draw(t, "contributedTo")]
		c.Contributed = &c03Contributed{Level: v.Level, Name: v.Name, Typed: rapid.Bool().Draw(t, "contributedTyped")}
	}
	c.DataText = c.Graph.JSONLD(genLDOpts(t, len(c.Graph.Nodes)))
	if len(c.Profile.Validations) > 0 && rapid.IntRange(0, 5).Draw(t, "collidingPredecessor") == 0 {
		next := map[string]string{"violation": "warning", "warning": "info", "info": "violation", "": ""}
		prev := c.Profile
		prev.Name = "previously validated"
		prev.Validations = nil
		for _, v := range c.Profile.Validations {
			v.Level = next[v.Level]
			prev.Validations = append(prev.Validations, v)
		}
		prev.ListOrder, prev.Undefined, prev.EmptyLevels = nil, nil, nil
		sum := pick(t, m.Checksums, "checksum")
		if a, b, ok := m.Collide(prev.ToY().Print(m.YOpts{}), c.ProfileText, sum, "# "); ok {
			c.Before, c.ProfileText, c.Checksum = a, b, sum
		}
	}
	return c
}

func validateCfg(profile, data string, c repCfg) call {
	return guard(func() (string, error) {
		if c.Listen {
			// a caller that listens to progress events: what the report says does not depend on it
			ch := make(chan events.Event, 64)
			return pkg.ValidateWithConfiguration(profile, data, false, &ch, c.clock(), c.report())
		}
		return pkg.ValidateWithConfiguration(profile, data, false, nil, c.clock(), c.report())
	})
}

// stripConfigured removes what the report configuration is allowed to change.
func stripConfigured(report string) (string, error) {
	var doc any
	if err := json.Unmarshal([]byte(report), &doc); err != nil {
		return "", err
	}
	arr, ok := doc.([]any)
	if !ok || len(arr) != 1 {
		return "", fmt.Errorf("not a one-element array")
	}
	root, _ := arr[0].(map[string]any)
	if ctx, ok := root["@context"].(map[string]any); ok {
		delete(ctx, "reportSchema")
		delete(ctx, "lexicalSchema")
	}
	if enc, ok := root["doc:encodes"].([]any); ok && len(enc) == 1 {
		if n, ok := enc[0].(map[string]any); ok {
			delete(n, "dateCreated")
		}
	}
	b, _ := json.Marshal(doc)
	return string(b), nil
}

func decideC03(c c03Case) ev.Verdict {
	if err := m.YAMLMatches(c.ProfileText, c.Profile.ToY()); err != nil {
		return ev.Verdict{Discard: true, Detail: err.Error()}
	}
	if c.Contributed != nil {
		ext := "rego_extensions: |\n  " + strings.ReplaceAll(strings.TrimSuffix(c.Contributed.rego(), "\n"), "\n", "\n  ") + "\n"
		c.ProfileText += ext
		if c.Before != "" {
			c.Before = "" // the twin was built for the text without the extension
		}
	}
	if c.Before != "" {
		if len(c.Before) != len(c.ProfileText) || m.Checksum(c.Checksum, c.Before) != m.Checksum(c.Checksum, c.ProfileText) {
			return ev.Verdict{Discard: true, Detail: "the predecessor does not collide with the subject"}
		}
		if r := validateCfg(c.Before, c.DataText, c.CfgA); r.failed() {
			return ev.Violation("c03-call-failed:"+classifyErr(r), "validation of the predecessor failed: %s\n%s", trunc(r.errString(), 400), c.Before)
		}
	}
	ra := validateCfg(c.ProfileText, c.DataText, c.CfgA)
	rb := validateCfg(c.ProfileText, c.DataText, c.CfgB)
	if ra.failed() || rb.failed() {
		return ev.Violation("c03-call-failed:"+classifyErr(ra), "validation failed: %s / %s\n%s", trunc(ra.errString(), 400), trunc(rb.errString(), 400), c.ProfileText)
	}
	rep, err := m.ParseReport(ra.Report)
	if err != nil {
		return ev.Violation("c03-bad-report", "%v\n%s", err, trunc(ra.Report, 600))
	}
	// expected (severity|shape|focus) triples from the model
	var want []string
	perLevel := map[string]int{}
	for _, v := range c.Profile.Validations {
		if v.Level == "" {
			continue
		}
		ids, ok := expectedFailing(v.Body, c.Graph, classTest)
		if !ok {
			return ev.Verdict{Discard: true, Detail: "values outside the witness table"}
		}
		for _, id := range ids {
			want = append(want, strings.Title(v.Level)+"|"+v.Name+"|"+id)
			perLevel[v.Level]++
		}
	}
	if c.Contributed != nil {
		want = append(want, strings.Title(c.Contributed.Level)+"|"+c.Contributed.Name+"|"+c03DocumentID)
		perLevel[c.Contributed.Level]++
	}
	for lvl, names := range c.Listed {
		for _, name := range names {
			for _, v := range c.Profile.Validations {
				if v.Name != name {
					continue
				}
				ids, _ := expectedFailing(v.Body, c.Graph, classTest)
				for _, id := range ids {
					want = append(want, strings.Title(lvl)+"|"+v.Name+"|"+id)
					perLevel[lvl]++
				}
			}
		}
	}
	sort.Strings(want)
	got := rep.Triples()
	if !m.EqualStrings(want, got) {
		return ev.Violation("c03-results-mismatch", "expected (severity|shape|focus) %v\nobserved %v\nprofile:\n%s\ngraph:\n%s", want, got, c.ProfileText, c.Graph)
	}
	hasViolation := false
	for _, r := range rep.Results {
		if r.Severity == "Violation" {
			hasViolation = true
		}
	}
	if rep.Conforms == hasViolation {
		return ev.Violation("c03-conforms", "conforms=%v but a Violation result present=%v (expected violation-level failures: %d)\nprofile:\n%s", rep.Conforms, hasViolation, perLevel["violation"], c.ProfileText)
	}
	if rep.Conforms != (perLevel["violation"] == 0) {
		return ev.Violation("c03-conforms", "conforms=%v, model has %d violation-level failures", rep.Conforms, perLevel["violation"])
	}
	if rep.HasResult != (len(rep.Results) > 0) {
		return ev.Violation("c03-result-key", "result key present=%v with %d results", rep.HasResult, len(rep.Results))
	}
	if rep.HasResult != (len(want) > 0) {
		return ev.Violation("c03-result-key", "result key present=%v, model expects %d results", rep.HasResult, len(want))
	}
	if rep.ProfileName != c.Profile.Name {
		return ev.Violation("c03-profile-name", "profileName %q, profile is named %q", rep.ProfileName, c.Profile.Name)
	}
	for _, x := range []struct {
		cfg repCfg
		res call
	}{{c.CfgA, ra}, {c.CfgB, rb}} {
		r, err := m.ParseReport(x.res.Report)
		if err != nil {
			return ev.Violation("c03-bad-report", "%v", err)
		}
		if (r.DateCreated != nil) != x.cfg.Include {
			return ev.Violation("c03-date-presence", "IncludeReportCreationTime=%v but dateCreated present=%v", x.cfg.Include, r.DateCreated != nil)
		}
		if r.DateCreated != nil {
			wantDate := x.cfg.clock().t.Format(time.RFC3339)
			if *r.DateCreated != wantDate {
				return ev.Violation("c03-date-value", "dateCreated %q, configured clock gives %q", *r.DateCreated, wantDate)
			}
		}
	}
	sa, errA := stripConfigured(ra.Report)
	sb, errB := stripConfigured(rb.Report)
	if errA != nil || errB != nil {
		return ev.Violation("c03-bad-report", "%v %v", errA, errB)
	}
	if sa != sb {
		return ev.Violation("c03-config-changes-more", "two report configurations changed more than dateCreated and the schema IRIs:\nA %+v\nB %+v\n%s\n---\n%s", c.CfgA, c.CfgB, trunc(sa, 1500), trunc(sb, 1500))
	}
	v := ev.Verdict{OK: true}
	levelsWithResults := 0
	for _, l := range []string{"violation", "warning", "info"} {
		if perLevel[l] > 0 {
			levelsWithResults++
			v.Labels = append(v.Labels, "results-at:"+l)
		}
	}
	if len(want) > 0 && rep.Conforms {
		v.Labels = append(v.Labels, "conforms-with-results")
	}
	if len(want) == 0 {
		v.Labels = append(v.Labels, "no-results")
	}
	if c.Before != "" {
		v.Labels = append(v.Labels, "after-a-profile-with-the-same-length-and-"+c.Checksum)
	}
	if c.Contributed != nil {
		v.Labels = append(v.Labels, fmt.Sprintf("result-contributed-by-embedded-rego:typed=%v", c.Contributed.Typed))
	}
	if len(c.Profile.Undefined) > 0 {
		v.Labels = append(v.Labels, "undefined-name-listed")
	}
	if len(c.Profile.EmptyLevels) > 0 {
		v.Labels = append(v.Labels, "empty-level-list")
	}
	for _, val := range c.Profile.Validations {
		if val.Level == "" {
			v.Labels = append(v.Labels, "defined-not-listed")
			break
		}
	}
	if c.CfgA.Include != c.CfgB.Include {
		v.Labels = append(v.Labels, "configs-differ-in-date-flag")
	}
	v.NonTrivial = levelsWithResults >= 2 || (len(want) > 0 && rep.Conforms)
	return v
}

func TestC03(t *testing.T) {
	ev.Run(t, "C03", genC03, decideC03)
}
