package props

import (
	"encoding/json"
	"fmt"
	"strings"
	"testing"

	"pgregory.net/rapid"
	"verifharness/ev"
	m "verifharness/model"
)

type c14Case struct {
	ProfileText string        `json:"profile_text"`
	Graph       *m.Graph      `json:"graph"`
	Maps        *m.SourceMaps `json:"source_maps"`
	Opts        m.LDOpts      `json:"ld_opts"`
	Route       int           `json:"route,omitempty"` // entry point producing both reports (see validateVia)
}

func genMagnitude(t *rapid.T, label string) int64 {
	switch rapid.IntRange(0, 5).Draw(t, label+"Kind") {
	case 0:
		return 0
	case 1:
		return 1
	case 2:
		return 1 << 31
	case 3:
		return 1000000000000
	default:
		return int64(rapid.IntRange(2, 9999).Draw(t, label))
	}
}

func genRange(t *rapid.T) m.Range {
	return m.Range{L1: genMagnitude(t, "l1"), C1: genMagnitude(t, "c1"), L2: genMagnitude(t, "l2"), C2: genMagnitude(t, "c2")}
}

// locations are strings the validator has to hand back exactly as the data states them: plain file IRIs, and
// strings with blanks, characters outside ASCII, percent signs, braces, fragments, Windows and relative paths
var c14Locations = []string{"file:///root.raml", "file://./api/root.yaml", "http://ex.org/api.json",
	"file:///home/dev/api specs/orders api.raml", "libs/Monitoring {v2}.raml", "file:///données/api-é.raml", "file:///仕様/api.raml",
	"file:///a/already%20encoded.raml", "file:///a/100%.raml", "C:\\work\\api\\root.raml", "file:///a/b.raml#/types/T", "http://ex.org/api.json?rev=2&x=(1)",
	"FILE:///Upper/Case.RAML", "file:///a//b/../c.raml", "root.raml", "file:///quote\"and'tick`.raml", "file:///tab\there.raml", " file:///leading-space.raml"}

// unreadableMembers is switched on by C14 only (other checks compare reports and need documents that are accepted)
var unreadableMembers = false

func genSourceMaps(t *rapid.T, g *m.Graph) *m.SourceMaps {
	s := &m.SourceMaps{Root: pick(t, c14Locations, "root"), Entries: map[int][]m.LexEntry{}}
	propIRIs := []string{m.NS + "p0", m.NS + "e0", "http://a.ml/vocabularies/core#name"}
	for i := range g.Nodes {
		kind := rapid.IntRange(0, 4).Draw(t, "lexKind") // 0 none, 1 property-level only, 2.. node-level (+ property-level around it)
		if kind == 0 {
			continue
		}
		var es []m.LexEntry
		nBefore := rapid.IntRange(0, 2).Draw(t, "propBefore")
		for k := 0; k < nBefore; k++ {
			es = append(es, m.LexEntry{Element: pick(t, propIRIs, "propIri"), Range: genRange(t)})
		}
		if kind >= 2 {
			es = append(es, m.LexEntry{NodeLevel: true, Range: genRange(t)})
			nAfter := rapid.IntRange(0, 2).Draw(t, "propAfter")
			for k := 0; k < nAfter; k++ {
				es = append(es, m.LexEntry{Element: pick(t, propIRIs, "propIri"), Range: genRange(t)})
			}
		} else if len(es) == 0 {
			es = append(es, m.LexEntry{Element: pick(t, propIRIs, "propIri"), Range: genRange(t)})
		}
		if rapid.IntRange(0, 7).Draw(t, "foreign") == 0 {
			es = append(es, m.LexEntry{Element: "amf://id#not-in-graph", Range: genRange(t)})
		}
		if unreadableMembers && rapid.IntRange(0, 3).Draw(t, "unreadableMember") == 0 {
			// a member that is not a well-formed entry, before or after the node's own entry
			bad := m.LexEntry{Element: "http://ex.org/v#p0", Range: genRange(t), Unreadable: pick(t, []string{"element-is-a-link", "no-element", "empty-entry"}, "unreadableKind")}
			pos := rapid.IntRange(0, len(es)).Draw(t, "unreadableAt")
			es = append(es[:pos:pos], append([]m.LexEntry{bad}, es[pos:]...)...)
		}
		s.Entries[i] = es
	}
	// node-level entries kept in another node's source map: the index is keyed by the element, so the node is
	// located all the same, and its file is the one it is listed under, not the one of the node holding the entry
	var hosts []int
	for i := range g.Nodes {
		if len(s.Entries[i]) > 0 {
			hosts = append(hosts, i)
		}
	}
	for j := range g.Nodes {
		if _, has := s.NodeRange(j); has || len(hosts) == 0 || (len(hosts) == 1 && hosts[0] == j) {
			continue
		}
		if rapid.IntRange(0, 2).Draw(t, "hosted") != 0 {
			continue
		}
		h := hosts[rapid.IntRange(0, len(hosts)-1).Draw(t, "host")]
		if h == j {
			continue
		}
		s.Entries[h] = append(s.Entries[h], m.LexEntry{For: j + 1, Range: genRange(t)})
	}
	nf := rapid.IntRange(0, 3).Draw(t, "files")
	assigned := map[int]bool{}
	for f := 0; f < nf; f++ {
		fl := m.FileLoc{Location: fmt.Sprintf("file:///lib%d.raml", f)}
		if rapid.Bool().Draw(t, "oddLocation") {
			fl.Location = fmt.Sprintf("%s-%d", pick(t, c14Locations, "location"), f)
		}
		for i := range g.Nodes {
			if !assigned[i] && rapid.IntRange(0, 3).Draw(t, "inFile") == 0 {
				assigned[i] = true
				fl.Nodes = append(fl.Nodes, i)
			}
		}
		s.Files = append(s.Files, fl)
	}
	return s
}

func genC14(t *rapid.T) c14Case {
	text, graphs, _ := genProfileAndGraphs(t, "c14", 1)
	g := graphs[0]
	unreadableMembers = rapid.IntRange(0, 5).Draw(t, "withUnreadableMembers") == 0
	c := c14Case{ProfileText: text, Graph: g, Maps: genSourceMaps(t, g)}
	unreadableMembers = false
	c.Opts = m.LDOpts{Unwrap1: rapid.Bool().Draw(t, "unwrap1"), Embed: rapid.Bool().Draw(t, "embed"), NativeLit: rapid.Bool().Draw(t, "native"), GraphWrap: rapid.IntRange(0, 1).Draw(t, "wrap")}
	if rapid.IntRange(0, 2).Draw(t, "compactForm") == 0 {
		// compact JSON-LD: prefixes, @vocab, ids relative to @base - the source maps name elements by absolute IRI
		c.Opts.Context = true
		c.Opts.Base = rapid.Bool().Draw(t, "base")
		c.Opts.Vocab = rapid.Bool().Draw(t, "vocab")
		c.Opts.Aliases = rapid.Bool().Draw(t, "aliases")
		c.Opts.TypeString = rapid.Bool().Draw(t, "typestr")
	}
	genScale(t, g, 16)
	if rapid.IntRange(0, 11).Draw(t, "padded") == 0 {
		c.Opts.PadBytes = rapid.SampledFrom([]int{70_000, 600_000, 1_200_000}).Draw(t, "padBytes")
	}
	// source maps without a BaseUnitSourceInformation node (what older producers emit): which uri a location then
	// carries is not specified, but the node's entry is still there and so are its four numbers
	if rapid.IntRange(0, 5).Draw(t, "noSourceInformation") == 0 {
		c.Maps.NoBase = true
		c.Maps.Files = nil
	}
	c.Route = rapid.SampledFrom([]int{0, 0, 1}).Draw(t, "route") // the two reports are compared whole: only the routes with a fixed clock
	return c
}

type locObs struct {
	present bool
	uri     string
	r       m.Range
	err     string
}

func readNum(v any) (int64, bool) {
	switch x := v.(type) {
	case json.Number:
		i, err := x.Int64()
		return i, err == nil
	case float64:
		return int64(x), float64(int64(x)) == x
	}
	return 0, false
}

func readLocation(obj map[string]any) locObs {
	l, ok := obj["location"]
	if !ok {
		return locObs{}
	}
	lm, ok := l.(map[string]any)
	if !ok {
		return locObs{present: true, err: "location is not an object"}
	}
	o := locObs{present: true}
	o.uri, _ = lm["uri"].(string)
	rg, _ := lm["range"].(map[string]any)
	st, _ := rg["start"].(map[string]any)
	en, _ := rg["end"].(map[string]any)
	var ok1, ok2, ok3, ok4 bool
	o.r.L1, ok1 = readNum(st["line"])
	o.r.C1, ok2 = readNum(st["column"])
	o.r.L2, ok3 = readNum(en["line"])
	o.r.C2, ok4 = readNum(en["column"])
	if !(ok1 && ok2 && ok3 && ok4) {
		o.err = fmt.Sprintf("location lacks integer line/column numbers: %v", lm)
	}
	return o
}

// checkLocations walks results / traces / sub-results.
func checkLocations(c *c14Case, ids map[string]int, obj map[string]any, where string, stats map[string]int) string {
	focus, _ := obj["focusNode"].(string)
	idx, known := ids[focus]
	if !known {
		return fmt.Sprintf("%s: focus node %q is not a node of the input graph", where, focus)
	}
	wantR, has := c.Maps.NodeRange(idx)
	check := func(o map[string]any, what string) string {
		got := readLocation(o)
		if got.err != "" {
			return fmt.Sprintf("%s %s: %s", where, what, got.err)
		}
		if got.present != has {
			return fmt.Sprintf("%s %s about node %s: location present=%v, node has a node-level lexical entry=%v", where, what, focus, got.present, has)
		}
		if has {
			if got.r != wantR {
				return fmt.Sprintf("%s %s about node %s: location range %v, recorded %v", where, what, focus, got.r, wantR)
			}
			if want := c.Maps.URI(idx); got.uri != want && !c.Maps.NoBase {
				return fmt.Sprintf("%s %s about node %s: uri %q, node was declared in %q", where, what, focus, got.uri, want)
			}
			stats["located"]++
			if c.Maps.URI(idx) != c.Maps.Root {
				stats["located-in-additional-file"]++
			}
			own := false
			for _, e := range c.Maps.Entries[idx] {
				own = own || e.NodeLevel
			}
			if !own {
				stats["located-by-entry-in-another-source-map"]++
			}
		} else {
			stats["unlocated"]++
		}
		return ""
	}
	if msg := check(obj, "result"); msg != "" {
		return msg
	}
	traces, _ := obj["trace"].([]any)
	for ti, tr := range traces {
		tm, ok := tr.(map[string]any)
		if !ok {
			continue
		}
		if msg := check(tm, fmt.Sprintf("trace %d", ti)); msg != "" {
			return msg
		}
		if tv, ok := tm["traceValue"].(map[string]any); ok {
			if subs, ok := tv["subResult"].([]any); ok {
				for si, s := range subs {
					if sm, ok := s.(map[string]any); ok {
						stats["subresults"]++
						if msg := checkLocations(c, ids, sm, fmt.Sprintf("%s/trace%d/sub%d", where, ti, si), stats); msg != "" {
							return msg
						}
					}
				}
			}
		}
	}
	return ""
}

// stripLocations removes every "location" key (and, being positional, "@id").
func stripLocations(v any) any {
	switch x := v.(type) {
	case map[string]any:
		out := map[string]any{}
		for k, e := range x {
			if k == "@context" {
				out[k] = e
				continue
			}
			if k == "location" {
				continue
			}
			out[k] = stripLocations(e)
		}
		return out
	case []any:
		out := make([]any, len(x))
		for i, e := range x {
			out[i] = stripLocations(e)
		}
		return out
	}
	return v
}

// hasLocationKey looks for a "location" key anywhere outside @context.
func hasLocationKey(v any) bool {
	switch x := v.(type) {
	case map[string]any:
		for k, e := range x {
			if k == "@context" {
				continue
			}
			if k == "location" || hasLocationKey(e) {
				return true
			}
		}
	case []any:
		for _, e := range x {
			if hasLocationKey(e) {
				return true
			}
		}
	}
	return false
}

func decideC14(c c14Case) ev.Verdict {
	with := c.Maps.Attach(c.Graph).JSONLD(c.Opts)
	without := c.Graph.JSONLD(c.Opts)
	rw := validateVia(c.Route, c.ProfileText, with)
	ro := validateVia(c.Route, c.ProfileText, without)
	if rw.Panic == "" && rw.Err != nil && !ro.failed() && c.Maps.HasUnreadable() {
		// a member list with an unreadable member: refusing the document is an answer (C17 owns "no panic"); when
		// the validator does answer with a report, the well-formed entries are judged as usual below
		return ev.Verdict{Discard: true, Detail: "document with an unreadable source-map member was refused", Obs: map[string]int{"refused_unreadable_source_map_member": 1}}
	}
	if rw.failed() || ro.failed() {
		return ev.Violation("c14-call-failed:"+classifyErr(rw), "validation failed: with maps: %s / without: %s\n%s", trunc(rw.errString(), 300), trunc(ro.errString(), 300), c.ProfileText)
	}
	repW, err := m.ParseReport(rw.Report)
	if err != nil {
		return ev.Violation("c14-bad-report", "%v", err)
	}
	ids := map[string]int{}
	for i, n := range c.Graph.Nodes {
		ids[n.ID] = i
	}
	stats := map[string]int{}
	for i, r := range repW.Results {
		if msg := checkLocations(&c, ids, r.Raw, fmt.Sprintf("result %d (%s)", i, r.Shape), stats); msg != "" {
			sig := "c14-location-mismatch"
			switch {
			case strings.Contains(msg, "location present="):
				sig = "c14-location-presence"
			case strings.Contains(msg, "uri "):
				sig = "c14-location-uri"
			}
			return ev.Violation(sig, "%s\nsource maps: %+v", msg, c.Maps)
		}
	}
	// without source maps: no location anywhere, and otherwise the same report
	var dw, do any
	_ = json.Unmarshal([]byte(rw.Report), &dw)
	_ = json.Unmarshal([]byte(ro.Report), &do)
	if hasLocationKey(do) {
		return ev.Violation("c14-location-without-source-maps", "data without source maps produced a location")
	}
	// the context is the same in both (it depends only on whether results exist)
	if m.Canon(stripLocations(dw)) != m.Canon(do) {
		return ev.Violation("c14-source-maps-change-more-than-location", "removing the source maps changed more than the location subtrees\n%s", firstDiff(m.Canon(stripLocations(dw)), m.Canon(do)))
	}
	v := ev.Verdict{OK: true, Obs: stats}
	if stats["located"] > 0 {
		v.Labels = append(v.Labels, "has-located-result")
	}
	if stats["unlocated"] > 0 {
		v.Labels = append(v.Labels, "has-unlocated-result")
	}
	if stats["located-by-entry-in-another-source-map"] > 0 {
		v.Labels = append(v.Labels, "located-by-entry-in-another-source-map")
	}
	if stats["located-in-additional-file"] > 0 {
		v.Labels = append(v.Labels, "located-in-additional-file")
	}
	if stats["subresults"] > 0 {
		v.Labels = append(v.Labels, "has-subresults")
	}
	v.NonTrivial = stats["located-in-additional-file"] > 0 && stats["unlocated"] > 0
	return v
}

func TestC14(t *testing.T) {
	ev.Run(t, "C14", genC14, decideC14)
}
