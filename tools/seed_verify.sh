#!/bin/bash
# usage: seed_verify.sh <ID> <name> <worktree>   -- confirm a seeded change (suite passes, demo fails with / passes without),
# store it under /verif/seeded/<name>/ and run the property's quick check against it in /repo.
set -u
ID=$1; NAME=$2; WT=$3
export GOFLAGS=-mod=mod GOPROXY=off GOSUMDB=off GOTOOLCHAIN=local
DST=/verif/seeded/$NAME
mkdir -p $DST
cp $WT/seed/patch.diff $WT/seed/meta.json $DST/ 2>/dev/null
cp $WT/seed/demo_test.go $DST/demo_test.go.txt 2>/dev/null
cd $WT && git reset -q && git checkout -q -- . && rm -f ${DEMO_DIR:-pkg}/zz_demo_test.go
rm -rf /tmp/seed-hold-$NAME && mv $WT/seed /tmp/seed-hold-$NAME   # keep the demo out of ./...
trap "mv /tmp/seed-hold-$NAME $WT/seed 2>/dev/null" EXIT
git clean -fdq   # files added by the patch the author left applied
echo "== clean tree: demo must pass"
cp $DST/demo_test.go.txt ${DEMO_DIR:-pkg}/zz_demo_test.go
go test -vet=off -count=1 -run . ./${DEMO_DIR:-pkg}/ 2>&1 | tail -3; CLEAN=${PIPESTATUS[0]}
rm -f ${DEMO_DIR:-pkg}/zz_demo_test.go
echo "== patched tree: build + suite must pass, demo must fail"
git apply $DST/patch.diff || { echo "PATCH DOES NOT APPLY"; exit 3; }
go build ./... || { echo "BUILD FAILS"; exit 3; }
go test -vet=off -count=1 ./... 2>&1 | grep -v "no test files" | grep -v "^ok" ; SUITE=${PIPESTATUS[0]}
cp $DST/demo_test.go.txt ${DEMO_DIR:-pkg}/zz_demo_test.go
go test -vet=off -count=1 -run . ./${DEMO_DIR:-pkg}/ 2>&1 | tail -4; DEMO=${PIPESTATUS[0]}
rm -f ${DEMO_DIR:-pkg}/zz_demo_test.go
git apply -R $DST/patch.diff
echo "clean_demo_rc=$CLEAN suite_rc=$SUITE patched_demo_rc=$DEMO"
echo "== quick check in /repo with the patch"
cd /repo && git status --short | grep -v '^??' && { echo "/repo not clean"; exit 4; }
git apply $DST/patch.diff || { echo "PATCH DOES NOT APPLY TO /repo HEAD"; exit 3; }
cd /verif && cp evidence/$ID.json /verif/.build/evidence-$ID.keep 2>/dev/null   # evidence must describe runs on the unchanged tree
./check $ID quick > $DST/quick_output.txt 2>&1; RC=$?
cp /verif/.build/evidence-$ID.keep evidence/$ID.json 2>/dev/null
git -C /repo apply -R $DST/patch.diff || git -C /repo checkout -- .
head -12 $DST/quick_output.txt | cut -c1-400
echo "quick_check_rc=$RC"
