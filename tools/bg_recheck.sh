#!/bin/bash
# Re-run the quick check of each property against every stored seeded change of that property, inside a
# `vp run --with-repo` snapshot (its own copy of /verif and of the repository): neither /repo nor /verif is touched.
#   vp run --with-repo --timeout 5h -- tools/bg_recheck.sh C01 C02 ...
set -u
R=${VP_RUN_REPO:-/repo}
sed -i "s#=> /repo#=> $R#" harness/go.mod
export VERIF_REPO_DIR=$R
export GOFLAGS=-mod=mod GOPROXY=off GOSUMDB=off GOTOOLCHAIN=local
export VERIF_NORETURN_SECS=${VERIF_NORETURN_SECS:-40}
for id in "$@"; do
  for d in seeded/$id*/; do
    n=$(basename $d)
    [ -f $d/RETIRED ] && { echo "$n: retired"; continue; }
    git -C $R apply $PWD/$d/patch.diff || { echo "$n: PATCH DOES NOT APPLY"; continue; }
    ./check $id quick > recheck-out.txt 2>&1; r=$?
    git -C $R checkout -- . ; git -C $R clean -fdq
    sig=$(grep -m1 "signature:" recheck-out.txt | sed 's/^ *//')
    echo "$n: rc=$r $sig"
  done
done
echo "=== recheck finished"
