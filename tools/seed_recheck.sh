#!/bin/bash
# seed_recheck.sh <ID>... : re-run the quick check of each property against every stored seeded change of that
# property (applied to /repo and reverted straight afterwards); evidence files are preserved.
# VERIF_NORETURN_SECS is lowered so that non-returning mutants do not cost two minutes each.
export GOFLAGS=-mod=mod GOPROXY=off GOSUMDB=off GOTOOLCHAIN=local
export VERIF_NORETURN_SECS=${VERIF_NORETURN_SECS:-30}
cd /verif
[ -z "$(git -C /repo status --short)" ] || { echo "/repo is not clean"; exit 3; }
rc=0
for id in "$@"; do
  for d in seeded/$id*/; do
    n=$(basename $d)
    [ -f $d/RETIRED ] && { echo "$n: retired ($(head -c 80 $d/RETIRED)...)"; continue; }
    cp evidence/$id.json /tmp/seed-recheck-ev.json 2>/dev/null
    git -C /repo apply /verif/$d/patch.diff || { echo "$n: PATCH DOES NOT APPLY"; rc=1; continue; }
    ./check $id quick > /tmp/seed-recheck-out.txt 2>&1; r=$?
    git -C /repo apply -R /verif/$d/patch.diff || git -C /repo checkout -- .
    git -C /repo clean -fdq
    cp /tmp/seed-recheck-ev.json evidence/$id.json 2>/dev/null
    sig=$(grep -m1 "signature:" /tmp/seed-recheck-out.txt | sed 's/^ *//')
    echo "$n: rc=$r $sig"
    [ $r -eq 1 ] || rc=1
  done
done
find replays -name '*.json' ! -name 'fixed-*' -delete
find replays -name '*.suspect' -delete
rm -f /tmp/seed-recheck-ev.json /tmp/seed-recheck-out.txt
exit $rc
