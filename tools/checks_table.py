"""Table of checks: what each property's quick/thorough command runs.

unit fields: name, bin (props|propshook|race), run (go test -run regex),
checks {tier: rapid cases per shard}, shards {tier: processes}, timeout {tier: seconds}.
"""

TRUST = [
    "trusted dependencies: Go encoding/json, gopkg.in/yaml.v3, piprate/json-gold, OPA v0.47.0 parser/compiler/evaluator, pgregory.net/rapid v1.3.0",
    "generated search shows presence of violations, never absence: the property held on the cases explored",
]


def fuzz_unit(name, target, seconds):
    return {"name": name, "bin": "fuzz", "run": "^$", "fuzz": target, "tiers": ["thorough"],
            "fuzztime": {"thorough": "%ds" % seconds}, "timeout": {"thorough": seconds + 600}}


def unit(name, run, quick, thorough, bin="props", shards=(16, 16), timeout=(600, 3000), **kw):
    u = {"name": name, "bin": bin, "run": run,
         "checks": {"quick": quick, "thorough": thorough},
         "shards": {"quick": shards[0], "thorough": shards[1]},
         "timeout": {"quick": timeout[0], "thorough": timeout[1]}}
    u.update(kw)
    return u


CHECKS = {
    "C01": {
        "level": "exploration",
        "technique": "property-based testing (rapid): generated formulas x graphs against an independent classical evaluator, plus metamorphic rewriting of the formula",
        "design_ref": "DESIGN.md §5 C01",
        "level_text": "Random profiles over the full declarative language (and/or/not/if-then-else, nested/atLeast/atMost, every atomic kind through a witness table) are validated against generated graphs; the reported (severity, shape, focus node) set must equal what a 150-line classical evaluator computes, and a meaning-preserving rewriting of each formula placed in the same profile must report the same nodes. Propositional formulas are decided on all 2^k truth assignments of their atoms. A further unit draws the arguments and the values of the atomic constraints themselves (patterns from a regular-expression grammar, lengths, integer and decimal bounds, lists, counts, property comparisons, in several YAML number spellings) and decides each atom and its negation by independent arithmetic. Exploration is the right level: the space of formulas x graphs is infinite and the oracle is executable.",
        "level_note": "Units added after seeded changes: generated atoms (arguments and values drawn, decided by independent arithmetic), several atoms over ONE property joined by or/and, operands that cannot fail, conditionals over quantified conditions, cases validated while other goroutines compile, all four entry-point routes. Atom meaning is taken from an auditable witness table (boundary values per kind) that a self-test confirms against the validator in every run; atoms under negation are single-valued (DESIGN §6 I1). Trusted: OPA, json-gold, yaml.v3, rapid.",
        "rule": "case = (profile with 1-2 random formulas and optional rewritten twins, graph); propositional mode enumerates all truth assignments as target nodes, quantified mode draws graphs with cycles/shared children; non-trivial = the profile has >=1 connective or quantifier and some validation has both reported and unreported target nodes; distinct by sha1 of the case",
        "assumptions": TRUST + ["negated per-value atoms are generated over single-valued properties only (I1)", "atom semantics inside formulas come from the witness table; generated arguments and values are checked atom by atom (plain and negated), patterns through Go's regexp (the engine the policy language uses)", "one case in eight is validated while other goroutines compile: the schedule is not owned by the harness, the case is judged like a quiet one"],
        "units": [
            unit("table", "^TestC01AtomTable$", 0, 0, shards=(1, 1)),
            unit("formulas", "^TestC01$", 100, 500, timeout=(900, 3300)),
            unit("gen-atoms", "^TestC01GenAtoms$", 150, 4000, timeout=(600, 3300)),
            unit("same-property", "^TestC01SameProperty$", 60, 1500, timeout=(600, 3300)),
        ],
    },
    "C03": {
        "level": "exploration",
        "technique": "property-based testing (rapid): model of levels/severities/header per generated profile, graph and report configuration; metamorphic comparison of two report configurations",
        "design_ref": "DESIGN.md §5 C03",
        "level_text": "Profiles with 0-6 validations spread at random over violation/warning/info (including empty levels, names listed but not defined, validations defined but not listed) are run on generated graphs under two random report configurations and clocks; conforms, the severity of every result, presence of the result key, profileName and dateCreated are compared with a model, and the two reports must be equal once dateCreated and the two schema IRIs are removed.",
        "level_note": "Failing sets come from the C01 reference evaluator over the witness table. Trusted: OPA, json-gold, yaml.v3, encoding/json, rapid.",
        "rule": "case = (profile, graph, two report configurations with clocks); non-trivial = results in >=2 levels, or results present while conforms is true; distinct by sha1 of the case",
        "assumptions": TRUST + ["a validation name is listed under at most one level; a level key is always a list"],
        "units": [unit("levels", "^TestC03$", 120, 2500)],
    },
    "C04": {
        "level": "exploration",
        "technique": "property-based testing (rapid): generated unreadable inputs (strict prefixes, wrong encodings, non-JSON formats, JSON-LD-invalidating mutations) with the precondition confirmed by encoding/json and json-gold; oracle = error and no report",
        "design_ref": "DESIGN.md §5 C04",
        "level_text": "Unreadable data is generated by construction from valid generated documents (every strict prefix class, UTF-16/32 re-encodings, random bytes, YAML/RAML/XML/Turtle text, one JSON-LD-invalidating mutation out of 21) and passed to all four validating entry points and the acv CLI; each must return an error and no report. The precondition (no complete JSON value / JSON-LD rejects) is confirmed with the trusted libraries before the case is judged.",
        "level_note": "Also: the same unreadable text handed to eight callers at once (two entries), mutations at the first or the last node of documents padded to a megabyte or carrying a thousand filler nodes. 'No complete JSON value' follows encoding/json's Decoder (first value), as the library itself uses. Remote @context documents are not generated (no network).",
        "rule": "case = (one of 3 fixed declarative profiles, entry point, data bytes of a stated class); every judged case is non-trivial (the input is confirmed unreadable); distinct by sha1 of the case; labels give the class x entry-point histogram",
        "assumptions": TRUST + ["json-gold's own Flatten is the reference for 'JSON-LD processing rejects it'"],
        "extra_builds": ["acv"],
        "units": [unit("unreadable", "^TestC04$", 700, 8000), fuzz_unit("fuzz-compiled-data", "FuzzCompiledData", 180)],
    },
    "C17": {
        "level": "exploration",
        "technique": "property-based testing (rapid) with structured YAML/JSON mutation of the repository's fixtures and raw byte mutation; oracle = recover() around every entry point, exactly one of report/error, report is JSON; exhaustive table of node-less documents; native go fuzzing in the thorough tier",
        "design_ref": "DESIGN.md §5 C17",
        "level_text": "Profiles and data are produced by 1-3 structural mutations (delete/replace/duplicate/wrap/rename at a random YAML or JSON node, biased to @id/@type/@graph and source-map keys), byte-level mutations, random bytes and a table of hostile constants, seeded from the ~110 profile and ~570 data fixtures of the repository, and sent through Validate, ValidateWithConfiguration, CompileProfile, and CompileProfile followed by ValidateCompiled[WithConfiguration]. No call may panic, each returns exactly one of report or error, a report parses as JSON. Every node-less JSON-LD document of a table x 3 declarative profiles x 4 entry points must give conforms=true.",
        "level_note": "A shard that dies of a fatal runtime error with frames of the module (stack overflow, concurrent map writes) is a violation whose replay is the case that was being decided (persisted before every case); memory exhaustion and kills stay inconclusive. 'Never blocks' cannot be decided by testing: a call that does not return hits the run deadline and is reported as inconclusive (exit 2). Panics are attributed to the first frame inside the module.",
        "rule": "case = (profile text, data text, entry point); non-trivial = the call ended in an error (the input reached a rejection path) or is a node-less document case; distinct by sha1 of the case; labels = mutation operators and outcomes",
        "assumptions": TRUST + ["termination is decided by a bound: a call that has not returned after 120 s (VERIF_NORETURN_SECS) while a trivial control call returns at once is reported as c17-no-return; if the control stalls too, or memory exceeds 8 GiB, the run is inconclusive; non-returning cases are saved unshrunk", "YAML anchors and aliases (including an alias inside its own anchor) are part of the structured mutations"],
        "units": [
            unit("nodeless", "^TestC17Nodeless$", 0, 0, shards=(1, 1)),
            unit("mutations", "^TestC17$", 800, 12000),
            fuzz_unit("fuzz-validate", "FuzzValidate", 240),
        ],
    },
    "C11": {
        "level": "fault_enumeration",
        "technique": "fault enumeration with property-based instantiation (rapid): every (entry point, injected fault, channel capacity) triple x random profiles/graphs, against a model of the event protocol; closure decided by channel state (second close / probe send), never by timing",
        "design_ref": "DESIGN.md §5 C11",
        "level_text": "The table 6 entry points x 16 fault classes (none; five profile-parsing faults; unknown prefix; Rego that does not compile; denied built-in; data not JSON; JSON-LD rejects; node-less data; evaluation error; report-building failure; a nil validation configuration) x channel capacity {64,1,0} is enumerated completely in both tiers; each applicable triple is instantiated with random generated profiles and graphs (3 per triple quick, 100 thorough). Observed events must be a prefix of the stage order, complete on success, reach the start of the failing stage and not go beyond its completion; the channel is closed exactly once by the validating call (a second close by the harness must panic; a library double close surfaces as a panic), open after a successful stand-alone CompileProfile (probe send succeeds) and closed after a failed one; timestamps are monotone; milestones replayed from the events are one per completed named stage with matching start and non-negative duration, and the milestone channel is closed.",
        "level_note": "Evaluation and report-building faults are injected through rego_extensions (a conflicting report[\"profile\"], a non-list `warning`), used purely as fault injectors. RegoCompilation has no milestone in the vocabulary (DESIGN §6 I3). A call that never returns hits the deadline = inconclusive.",
        "rule": "unit = (entry point, fault, capacity) triple, all 288 enumerated, inapplicable combinations (profile faults for a validate-only entry, data faults for compile-only) discarded and counted; case = triple x random instantiation; every judged case is non-trivial; distinct by sha1 of the case",
        "assumptions": TRUST + ["the library sends events synchronously from the calling goroutine (no background sender), so channel state after return is final"],
        "exhaustive": True,
        "units": [unit("protocol", "^TestC11$", 10, 200, timeout=(600, 3000))],
    },
    "C06": {
        "level": "exploration",
        "technique": "property-based testing (rapid): byte comparison of repeated, concurrent and fresh-process runs of the same generated inputs (metamorphic: identity relation), plus repeated `acv generate`",
        "design_ref": "DESIGN.md §5 C06",
        "level_text": "Profiles biased to what can reorder (several keys, and several nested/atLeast/atMost, in one propertyConstraints map, under not/or/if; several validations) are validated 6 times sequentially and from 8 goroutines at once with a fixed clock, and for a quarter of the cases in 3 fresh processes (the test binary re-executes itself) plus 3 fresh `acv generate` runs; all reports, and all generated policies, must be byte-identical. Go re-randomises map iteration on every range, so in-process repetition exercises order dependence directly.",
        "level_note": "An order dependence over a k-key map survives R runs with probability about (1/k!)^(R-1); the bias towards k>=3 makes that negligible over the run. 'Any degree of concurrency' is sampled at 8 goroutines here (C10 varies it).",
        "rule": "case = (profile, data); non-trivial = the report has a result with >=2 traces or a non-empty subResult; distinct by sha1 of the case",
        "assumptions": TRUST + ["fresh-process runs use the harness test binary as the process image"],
        "extra_builds": ["acv"],
        "units": [unit("determinism", "^TestC06$", 10, 120, timeout=(900, 3300))],
    },
    "C09": {
        "level": "exploration",
        "technique": "model-based / stateful property-based testing (rapid): generated histories of documents through one compiled profile, invariant after every step = result of a fresh independent text validation",
        "design_ref": "DESIGN.md §5 C09",
        "level_text": "Histories of 3-20 ValidateCompiled / ValidateCompiledWithConfiguration calls over 1-2 profiles compiled once and a pool of generated documents (failing, passing, node-less, not JSON, rejected by JSON-LD), with immediate repeats and failing-then-passing orders; after every step the outcome must equal that of a fresh ValidateWithConfiguration of the profile text (same error-ness; reports equal as JSON with result/trace lists compared as multisets).",
        "level_note": "Byte identity is C06's claim and kept out of this oracle so that one root cause trips one property (DESIGN §6 I8).",
        "rule": "case = (profiles, documents, history of operations); non-trivial = history of >=3 steps containing a failing document followed by a passing one, an error followed by a success, or an immediate repeat; distinct by sha1 of the case",
        "assumptions": TRUST,
        "units": [unit("histories", "^TestC09$", 50, 500, timeout=(600, 3300))],
    },
    "C10": {
        "level": "exploration",
        "technique": "property-based testing (rapid) of generated schedules (operations dealt to 2-8 goroutines, GOMAXPROCS 1-16, yield points) run under the Go race detector; differential oracle = each operation's result when run alone",
        "design_ref": "DESIGN.md §5 C10",
        "level_text": "Generated mixes of Validate / ValidateWithConfiguration / CompileProfile / ValidateCompiled[WithConfiguration] on shared compiled profiles / compile-then-validate are released by a barrier in 2-8 goroutines with GOMAXPROCS in {1,2,4,16}; the binary is built with -race and any race report naming the module is a violation (signature = top frames), and every operation must return what it returned when run alone beforehand.",
        "level_note": "Errors are compared by text (digit runs masked), not only by presence; half of the schedules run the concurrent phase first on texts the process has never seen. The harness does not own the Go scheduler: interleavings are sampled, not enumerated. The race detector carries this check (it flags unsynchronised access on executed paths regardless of the interleaving that happened); logic races on correctly locked state are caught only if the schedule hits them. Race failures do not shrink (the detector reports a stack pair once per process); the replay re-runs the mix 50 times.",
        "rule": "case = (profiles, documents, per-goroutine operation lists, GOMAXPROCS); non-trivial = >=2 goroutines each compile, or >=2 goroutines use the same compiled profile; distinct by sha1 of the case",
        "assumptions": TRUST + ["Go race detector (happens-before) as the data-race oracle"],
        "units": [unit("schedules", "^TestC10$", 8, 80, bin="race", gorace=True, timeout=(600, 3300), shrinktime="10s")],
    },
    "C18": {
        "level": "exploration",
        "technique": "model-based / stateful property-based testing (rapid): generated histories of acv invocations over one output path against a model of the file (expected bytes = the library's report obtained in-process); differential check of generate/normalize against the library through the verif hook",
        "design_ref": "DESIGN.md §5 C18",
        "level_text": "Histories of 3-10 actions on one output path: acv validate P D OUT / acv validate P D / generate / normalize / compile / wrong argument counts / unknown command, interleaved with steps that set the prior state of OUT (absent, empty, 1-20000 random bytes, a previous longer report, mode 0444, a directory), over valid and invalid profiles and documents whose reports differ widely in length. After every action the model gives the expected bytes of OUT (exactly the library's report with dateCreated masked and checked to be an RFC 3339 instant inside the run interval; unchanged on failure), stdout (the report plus the newline Println adds; no report on failure) and exit status. A second unit compares `acv generate`/`acv normalize` stdout byte for byte with the library's GenerateRego / ProcessInput+Encode reached through the build-tag hook.",
        "level_note": "The process runs as root, so mode 0444 does not prevent writing. The trailing newline of Println is allowed on stdout, not in the file (DESIGN §6 I2).",
        "rule": "case = (profiles, documents, action history); non-trivial = a report was written over longer prior content, or a failure followed a success on the same path (histories), every generate/normalize comparison; distinct by sha1 of the case",
        "assumptions": TRUST + ["the library report for the same texts is obtained in-process with pkg.Validate"],
        "extra_builds": ["acv"],
        "units": [
            unit("cli", "^TestC18$", 20, 300, timeout=(600, 3300)),
            unit("cli-hook", "^TestC18Hook$", 25, 600, bin="propshook", shards=(8, 16)),
        ],
    },
    "C12": {
        "level": "exploration",
        "technique": "property-based testing (rapid): validity predicate over the parsed report for generated profiles biased to rich reports (several traces, nested sub-results to depth 4, location nodes)",
        "design_ref": "DESIGN.md §5 C12",
        "level_text": "Reports of generated profiles (or of several atoms, nested/atLeast/atMost inside nested to depth 4, several quantified constraints per validation, all three levels) on graphs where many nodes fail, with and without lexical source maps, are parsed and checked against a validity predicate: one array element that is a meta:DialectInstance encoding exactly one shacl:ValidationReport; every typed object outside @context has an @id and all @ids are pairwise distinct; every result and sub-result has exactly one focusNode that is a node of the input graph, a sourceShapeName defined in the profile (`nested` in sub-results), a non-empty message, a non-empty trace whose entries have non-empty component and resultPath and a traceValue object.",
        "level_note": "A predicate over outputs (many reports are correct), not a golden comparison. Declarative profiles only (a top-level rego rule has an empty resultPath by design).",
        "rule": "case = (profile, graph, optional source maps, serialisation options); non-trivial = >=2 results and (a result with >=2 traces or sub-result depth >=3); distinct by sha1 of the case",
        "assumptions": TRUST,
        "extra_builds": ["acv"],
        "units": [unit("wellformed", "^TestC12$", 60, 800)],
    },
    "C14": {
        "level": "exploration",
        "technique": "property-based testing (rapid): generated lexical source maps (AMF shape) against a model of node->(range, file); metamorphic comparison with the same data stripped of source maps",
        "design_ref": "DESIGN.md §5 C14",
        "level_text": "Graphs get generated source maps: per node optionally a node-level lexical entry (ranges with magnitudes 0, 1, small, 2^31, 10^12), property-level entries before/after it, nodes with property-level entries only, entries about ids outside the graph, a root location and 0-3 additional locations listing disjoint node subsets, single value vs array and embedded vs flat serialisation. For every result, trace and sub-result the location must be present exactly when the focus node has a node-level entry, with exactly its four numbers and the uri of the file listing the node (root location otherwise); validating the same data without source maps must give a report without any location that is otherwise equal (multiset comparison).",
        "level_note": "A source-map section always comes with a BaseUnitSourceInformation node; a node is listed by at most one additional location and has at most one node-level entry (what happens otherwise is unspecified).",
        "rule": "case = (profile, graph, source maps, serialisation options); non-trivial = some located result lies in an additional file and some result has no location; distinct by sha1 of the case",
        "assumptions": TRUST,
        "units": [unit("locations", "^TestC14$", 120, 1500)],
    },
    "C02": {
        "level": "exploration",
        "technique": "property-based testing (rapid): generated path expressions x graphs against an independent set-based path denotation, observed three ways (values seen by `in`, distinct count seen by exactCount, nodes visited by nested); plus exhaustive enumeration of all paths with <=3 leaves on a fixed graph",
        "design_ref": "DESIGN.md §5 C02",
        "level_text": "Random path ASTs (<=6 leaves quick, <=10 thorough: sequences, alternatives, inverse steps, @type, literal-valued steps, random whitespace and redundant parentheses) on random graphs with cycles, self-loops, shared children, literals inside edge properties and node links inside literal properties; for every target node the set of values the `in` constraint saw, the number of distinct values exactCount saw, and the nodes nested visited must equal the reference denotation (composition, union, converse; only nodes continue to the next step). A second unit enumerates every path with <=3 leaves over 6 leaf kinds (1374 paths) on a fixed graph with a self-loop, a 2-cycle and a diamond.",
        "level_note": "Known finding (open): a node reached both by a forward final step and an inverse final step is counted twice by counting constraints; cases of exactly that shape are counted and excluded so the search continues. Custom-property (apiExt.) steps are not generated.",
        "rule": "case = (path, graph); non-trivial = the path has >=2 operators (/,|,^) and some target node has a non-empty denotation; distinct by sha1 of the case",
        "assumptions": TRUST + ["printed paths always put whitespace before '/' (an unspaced '/' is part of an IRI in the grammar)"],
        "units": [
            unit("small-paths", "^TestC02SmallPaths$", 0, 0, shards=(8, 8)),
            unit("paths", "^TestC02$", 100, 2500),
            unit("comparisons", "^TestC02Comparison$", 60, 1500),
        ],
    },
    "C16": {
        "level": "exploration",
        "technique": "differential testing against an independent hand-written recogniser of the documented PEG with an end-of-input anchor: exhaustive enumeration of small sentences and all their single-token edits, plus property-based (rapid) larger sentences with up to 3 edits; structure compared through the build-tag hook, acceptance also end to end through CompileProfile",
        "design_ref": "DESIGN.md §5 C16",
        "level_text": "Every sentence with <=3 leaves over {ex.a, ex.b^, @type} in every bracketing and three operator spellings, and every single-token deletion, insertion and substitution of each over the path alphabet ( ) / | ^ . @type ex.a ex.b space and the foreign symbol # (about 3.2e5 distinct strings) is given to the real parser through the hook: accept/reject must equal the reference recogniser and the parsed structure must equal the reference structure. The <=2-leaf family (about 7.7e3 strings) and random larger sentences with 0-3 edits also go end to end: a one-constraint profile using the string as propertyConstraints key (or lessThanProperty argument) must compile exactly when the reference accepts. Two spellings (whitespace, redundant parentheses) of one AST must parse to one structure.",
        "level_note": "Strings whose status the grammar file and the documentation leave open are skipped and counted: leading whitespace, whitespace after a top-level ')' or '@type', the modifiers '*', '\"' and ',' that the grammar's character class also admits. A panic counts as rejection here (C17 owns panics).",
        "rule": "case = path string (+ how it is submitted); non-trivial = the reference rejects it (a mutation) or it has >=2 operators; distinct by sha1 of the case; the small families are enumerated completely",
        "assumptions": TRUST + ["the reference recogniser (harness/model/path.go, ~150 lines) is a faithful reading of third_party/propertyparser.peg with an end-of-input anchor"],
        "exhaustive": True,
        "units": [
            unit("hook-family", "^TestC16HookFamily$", 0, 0, bin="propshook", shards=(4, 4)),
            unit("compile-family", "^TestC16CompileFamily$", 0, 0, shards=(12, 12)),
            unit("compile-random", "^TestC16Compile$", 40, 2000, shards=(8, 16)),
            unit("hook-random", "^TestC16HookRandom$", 3000, 120000, bin="propshook", shards=(4, 16)),
            unit("variants", "^TestC16Variants$", 500, 20000, bin="propshook", shards=(2, 8)),
            fuzz_unit("fuzz-path", "FuzzPath", 120),
        ],
    },
    "C13": {
        "level": "exploration",
        "technique": "property-based testing (rapid): strings built from a table of dangerous character classes placed as profile name, validation name, message (with 0-3 placeholders) and list values; oracle = verbatim round trip into the report plus a model of placeholder substitution, and a metamorphic check that the list value still means itself",
        "design_ref": "DESIGN.md §5 C13",
        "level_text": "Texts are assembled from 14 classes (double/single quotes, backslashes and escape look-alikes, percent verbs, braces that are not placeholders, $node/$result/$message, backticks, #, colons, newlines, tabs, non-ASCII incl. an astral-plane emoji, leading/trailing spaces, Rego syntax fragments) mixed with words, one (position, class) cell forced per case so the 4x14 table fills up; the profile is printed with double-quoted YAML and round-tripped through yaml.v3. The profile must compile; on a two-node graph the node holding exactly the listed value must pass and the other must be the only result, with profileName and sourceShapeName verbatim and resultMessage equal to the message with each {{ex.hK}} replaced by the node's value (null when absent) and double quotes shown as single quotes.",
        "level_note": "Placeholder values are kept alphanumeric (how a value containing a quote is displayed is unspecified). Accidental placeholders formed by the alphabet are discarded and counted. Patterns are outside the quantifier of C13.",
        "rule": "case = (profile name, validation name, message with placeholders, list kind and value, node values); non-trivial = some text contains a piece of a dangerous class; distinct by sha1 of the case; labels = position x class cells",
        "assumptions": TRUST,
        "units": [unit("text", "^TestC13$", 150, 3000)],
    },
    "C05": {
        "level": "exploration",
        "technique": "metamorphic property-based testing (rapid): two independently drawn JSON-LD serialisations of one abstract graph, equality of the RDF graphs confirmed by URDNA2015 canonicalisation (json-gold), must give the same conforms flag and result set",
        "design_ref": "DESIGN.md §5 C05",
        "level_text": "An abstract graph and a generated profile (connectives, nested/atLeast/atMost, counts, optionally a random property path, messages with placeholders) are validated under two serialisations drawn independently from 14 option dimensions: @context with prefix or @vocab, @base-relative ids, embedded vs flat nodes, @graph wrapper or single object, node order, key order, single value vs one-element array, @type string vs array, class order, native vs {\"@value\":x} literals, repeated values, one node split into two entries, indentation. Same conforms and same set of (severity, validation, focus node, message) are required.",
        "level_note": "Pairs whose canonical N-Quads differ are discarded and counted (0 expected). No blank nodes (json-gold labels them in document order); the order of the values inside one property is not permuted (messages may print them in order).",
        "rule": "case = (profile, graph, serialisation A, serialisation B); non-trivial = the serialisations differ in >=2 option dimensions and the report has >=1 result; distinct by sha1 of the case; labels = which dimensions differed",
        "assumptions": TRUST + ["json-gold URDNA2015 decides 'same graph'"],
        "units": [unit("reserialise", "^TestC05$", 60, 1800)],
    },
    "C15": {
        "level": "exploration",
        "technique": "metamorphic property-based testing (rapid): two YAML spellings of one profile tree (key/list/operand permutations, prefix renaming and aliasing, quoting, flow/block, comments, indentation), each confirmed against its tree with yaml.v3, must give the same outcome",
        "design_ref": "DESIGN.md §5 C15",
        "level_text": "A generated profile (1-4 validations over ex.Test or shapes.Thing, names and messages drawn from a pool that contains the language's own key words, placeholders in messages) is rendered twice: once canonically, once after permuting the keys of every mapping, the names of every level list and the operands of every and/or, and optionally renaming the prefix consistently, using a second declared prefix bound to the same namespace for a random subset of uses, or using the built-in pair shapes/raml-shapes interchangeably; each rendering gets its own random YAML style (indent 2-4, flow vs block, plain/double/single quoting, comments and blank lines, indented sequences, header line). Both must be accepted or both rejected, and give the same conforms flag and set of (severity, validation, focus node, message).",
        "level_note": "Both renderings are parsed back with yaml.v3 and compared with their trees before use; a mismatch is a discard (0 expected).",
        "rule": "case = (spelling A, spelling B, data); non-trivial = >=2 kinds of rewrite applied and the report has >=1 result; distinct by sha1 of the case",
        "assumptions": TRUST,
        "units": [unit("respell", "^TestC15$", 70, 800)],
    },
    "C07": {
        "level": "exploration",
        "technique": "property-based testing (rapid) over the full declarative grammar with oracle 'CompileProfile returns nil error and does not panic'; plus a deterministic sweep of 1..K quantified constraints per validation for each quantifier kind",
        "design_ref": "DESIGN.md §5 C07",
        "level_text": "Declarative profiles are generated over the whole language: every atomic kind of the witness table plus uniqueValues, keys replaced by random path expressions (sequences, alternatives, inverse steps, @type, redundant parentheses, whitespace), 1-8 validations over the three levels and six target classes (declared and built-in prefixes), connective depth 1-5 (8 thorough), and validations with 5-15 or 16-40 nested/atLeast/atMost constraints grouped in one map, under and/or/not, some with a second nesting level. A sweep compiles, for each of nested/atLeast/atMost and each of three groupings, a validation with k quantified constraints for k = 1..30 (60 thorough). Every profile must compile.",
        "level_note": "Names are identifier-like (hostile text is C13's domain, DESIGN §6 I7). One evaluation on a one-node graph is run and its error, if any, recorded as an observation only.",
        "rule": "case = profile text; non-trivial = some validation has >=2 quantified variables, or connective depth >=3, or a path with >=2 operators; distinct by sha1 of the case; labels give the histogram of quantified variables per validation (the 12th was the O7 threshold)",
        "assumptions": TRUST,
        "units": [
            unit("sweep", "^TestC07Sweep$", 0, 0, shards=(8, 16)),
            unit("grammar", "^TestC07$", 30, 500, timeout=(900, 3300)),
        ],
    },
    "C08": {
        "level": "exploration",
        "technique": "exhaustive enumeration of (denied built-in x embedding position x call syntax) with a compiling control in the same slot, plus a census of every built-in registered in the linked OPA (ast.Builtins): each accepted call is evaluated in a helper process under strace and must make no AF_INET/AF_INET6 system call; random (built-in, position, syntax) triples by rapid",
        "design_ref": "DESIGN.md §5 C08",
        "level_text": "For http.send, net.lookup_ip_addr, opa.runtime, rego.parse_module and walk, every one of 17 embedding positions (top-level rego / regoModule / code+message, a helper function in rego_extensions called from a rule, an unused rule in rego_extensions, constraint-level rego / regoModule / code+message, inside nested, atLeast, atMost, and, or, not, if, then, else) x 10 call syntaxes (statement, =, :=, array/set/object comprehension, not, every, argument of another call, after the result assignment) is compiled: CompileProfile and Validate must fail with the engine's unsafe built-in error naming that built-in and no data-processing or evaluation event may be emitted; the same profile with count([1]) in the slot must compile (otherwise the embedding is vacuous and is counted, not judged). The built-in table is read from the linked engine, so a dependency bump changes the domain: every registered built-in gets a call built from its declared argument types; calls that compile are evaluated in a fresh traced process (strace -f -e trace=network) and must not create or connect an internet socket.",
        "level_note": "Also: the denied built-in substituted through `with f as <built-in>` (never written as a call), every table cell through ValidateWithConfiguration under three report configurations, and one denied text submitted by ten goroutines a few milliseconds apart. The deny list itself is taken from the statement; the strace monitor is the generated backstop for network capability beyond the five names. The sandbox has no network, but the attempt is still a system call. The engine's Nondeterministic flag of accepted built-ins is reported in the labels for context.",
        "rule": "case = (built-in, call text, position, syntax); every judged case is non-trivial; distinct by sha1 of the case; the denied table (5x17x10) and the census (all registered built-ins) are enumerated completely, vacuous embeddings and calls that do not type-check are discarded and counted",
        "assumptions": TRUST + ["strace reports every network system call of the traced helper process and its threads"],
        "exhaustive": True,
        "units": [
            unit("denied", "^TestC08Denied$", 0, 0, shards=(8, 8)),
            unit("concurrent", "^TestC08Concurrent$", 0, 0, shards=(4, 4)),
            unit("heavy", "^TestC08Heavy$", 0, 0, shards=(4, 4)),
            unit("census", "^TestC08Census$", 0, 0, shards=(8, 8)),
            unit("random-builtins", "^TestC08AllBuiltins$", 4, 40, shards=(8, 16)),
        ],
    },
}

NOT_APPLICABLE = []


def manifest_doc():
    checks = []
    for pid in sorted(CHECKS):
        s = CHECKS[pid]
        checks.append({
            "property_id": pid,
            "quick_cmd": "./check %s quick" % pid,
            "thorough_cmd": "./check %s thorough" % pid,
            "evidence_file": "/verif/evidence/%s.json" % pid,
            "replay_cmd_template": "./check --replay {path}",
            "engine": "harness",
            "level_claimed": {"category": s["level"], "text": s["level_text"], "design_ref": s["design_ref"]},
            "level_note": s["level_note"],
            "technique": s["technique"],
        })
    import json, os
    na = list(NOT_APPLICABLE)
    here = os.path.dirname(os.path.dirname(os.path.abspath(__file__)))
    for line in open(os.path.join(here, "properties.jsonl")):
        line = line.strip()
        if not line:
            continue
        pid = json.loads(line)["id"]
        if pid not in CHECKS and not any(x["property_id"] == pid for x in na):
            na.append({"property_id": pid, "reason": "check not built yet at this commit (planned, see DESIGN.md §5); not claimed until its quick command passes on the unchanged tree"})
    return {
        "version": 1,
        "setup_cmd": "./check --setup",
        "hooks": {
            "guard": "verif",
            "enable": "go test -tags verif (harness module /verif/harness replaces the module path with /repo; only package harness/propshook is built with the tag)",
            "baseline_off_cmd": "cd /repo && go test -mod=mod -json -vet=off -count=1 -timeout 25m ./...",
            "source_commits": HOOK_COMMITS,
            "add_only": True,
        },
        "engines": [{
            "name": "harness",
            "path": "/verif/harness",
            "serves_properties": sorted(CHECKS),
            "kind_free_text": "Go module driving pkg.* of /repo with pgregory.net/rapid v1.3.0 generators, explicit oracles (reference models, metamorphic and differential relations), native go fuzzing in the thorough tier; driver /verif/check shards runs over 16 processes and merges evidence",
        }],
        "checks": checks,
        "not_applicable": na,
        "notes": "All random choices derive from VERIF_SEED through rapid's seed flag (native fuzzing in thorough tiers excepted). Exit 2 = inconclusive (build failure, timeout).",
    }


HOOK_COMMITS = ["dd0deef"]
