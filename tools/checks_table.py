"""Table of checks: what each property's quick/thorough command runs.

unit fields: name, bin (props|propshook|race), run (go test -run regex),
checks {tier: rapid cases per shard}, shards {tier: processes}, timeout {tier: seconds}.
"""

TRUST = [
    "trusted dependencies: Go encoding/json, gopkg.in/yaml.v3, piprate/json-gold, OPA v0.47.0 parser/compiler/evaluator, pgregory.net/rapid v1.3.0",
    "generated search shows presence of violations, never absence: the property held on the cases explored",
]


def unit(name, run, quick, thorough, bin="props", shards=(16, 16), timeout=(600, 3000), **kw):
    u = {"name": name, "bin": bin, "run": run,
         "checks": {"quick": quick, "thorough": thorough},
         "shards": {"quick": shards[0], "thorough": shards[1]},
         "timeout": {"quick": timeout[0], "thorough": timeout[1]}}
    u.update(kw)
    return u


CHECKS = {
    "C01": {
        "level": "exploration",
        "technique": "property-based testing (rapid): generated formulas x graphs against an independent classical evaluator, plus metamorphic rewriting of the formula",
        "design_ref": "DESIGN.md §5 C01",
        "level_text": "Random profiles over the full declarative language (and/or/not/if-then-else, nested/atLeast/atMost, every atomic kind through a witness table) are validated against generated graphs; the reported (severity, shape, focus node) set must equal what a 150-line classical evaluator computes, and a meaning-preserving rewriting of each formula placed in the same profile must report the same nodes. Propositional formulas are decided on all 2^k truth assignments of their atoms. Exploration is the right level: the space of formulas x graphs is infinite and the oracle is executable.",
        "level_note": "Atom meaning is taken from an auditable witness table (boundary values per kind) that a self-test confirms against the validator in every run; atoms under negation are single-valued (DESIGN §6 I1). Trusted: OPA, json-gold, yaml.v3, rapid.",
        "rule": "case = (profile with 1-2 random formulas and optional rewritten twins, graph); propositional mode enumerates all truth assignments as target nodes, quantified mode draws graphs with cycles/shared children; non-trivial = the profile has >=1 connective or quantifier and some validation has both reported and unreported target nodes; distinct by sha1 of the case",
        "assumptions": TRUST + ["negated per-value atoms are generated over single-valued properties only (I1)", "atom semantics checked at table witnesses, not over all regexes/numbers"],
        "units": [
            unit("table", "^TestC01AtomTable$", 0, 0, shards=(1, 1)),
            unit("formulas", "^TestC01$", 100, 1500, timeout=(900, 3300)),
        ],
    },
}

NOT_APPLICABLE = []


def manifest_doc():
    checks = []
    for pid in sorted(CHECKS):
        s = CHECKS[pid]
        checks.append({
            "property_id": pid,
            "quick_cmd": "./check %s quick" % pid,
            "thorough_cmd": "./check %s thorough" % pid,
            "evidence_file": "/verif/evidence/%s.json" % pid,
            "replay_cmd_template": "./check --replay {path}",
            "engine": "harness",
            "level_claimed": {"category": s["level"], "text": s["level_text"], "design_ref": s["design_ref"]},
            "level_note": s["level_note"],
            "technique": s["technique"],
        })
    return {
        "version": 1,
        "setup_cmd": "./check --setup",
        "hooks": {
            "guard": "verif",
            "enable": "go test -tags verif (harness module /verif/harness replaces the module path with /repo; only package harness/propshook is built with the tag)",
            "baseline_off_cmd": "cd /repo && go test -mod=mod -json -vet=off -count=1 -timeout 25m ./...",
            "source_commits": HOOK_COMMITS,
            "add_only": True,
        },
        "engines": [{
            "name": "harness",
            "path": "/verif/harness",
            "serves_properties": sorted(CHECKS),
            "kind_free_text": "Go module driving pkg.* of /repo with pgregory.net/rapid v1.3.0 generators, explicit oracles (reference models, metamorphic and differential relations), native go fuzzing in the thorough tier; driver /verif/check shards runs over 16 processes and merges evidence",
        }],
        "checks": checks,
        "not_applicable": NOT_APPLICABLE,
        "notes": "All random choices derive from VERIF_SEED through rapid's seed flag (native fuzzing in thorough tiers excepted). Exit 2 = inconclusive (build failure, timeout).",
    }


HOOK_COMMITS = ["dd0deef"]
