#!/bin/bash
# Run thorough checks from a `vp run --with-repo` snapshot without touching /repo or /verif:
#   vp run --with-repo --timeout 5h -- tools/bg_thorough.sh C01 C02 ...
# The harness module is re-pointed at the repository snapshot; results are exploratory, never evidence.
set -u
R=${VP_RUN_REPO:-/repo}
sed -i "s#=> /repo#=> $R#" harness/go.mod
export VERIF_REPO_DIR=$R
for id in "$@"; do
  echo "=== $id thorough (repo $R) $(date +%T)"
  ./check $id thorough 2>&1 | cut -c1-600 | head -60
  echo "=== $id exit ${PIPESTATUS[0]} $(date +%T)"
done
