#!/bin/bash
# Run the whole quick tier at several VERIF_SEED values from a `vp run --with-repo` snapshot (flakiness sweep).
set -u
R=${VP_RUN_REPO:-/repo}
sed -i "s#=> /repo#=> $R#" harness/go.mod
export VERIF_REPO_DIR=$R
for seed in "$@"; do
  echo "=== seed $seed $(date +%T)"
  VERIF_SEED=$seed ./check --all quick 2>&1 | grep -E "^OK|^VIOLATION|^INCONCLUSIVE|signature|detail" | cut -c1-400
  echo "=== seed $seed exit ${PIPESTATUS[0]} $(date +%T)"
done
